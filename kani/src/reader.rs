//! C11 / C15 / C17 — `DecoderReader` / `SmlReader` around a decoder in an ARBITRARY state:
//! one source event (byte, WouldBlock, other error, end of input).
use crate::decstep::{build, draw, inv, is_fresh, norm, own, since_boundary, Pre, R, RAW_MAX};
use crate::nd::{Nd, Out, Replay};
use sml_rs::transport::{DecodeErr, Decoder, ReadDecodedError};
use sml_rs::util::{ArrayBuf, Buffer};
use sml_rs::{DecodedBytes, SmlReader};

/// Scripted `embedded-hal` serial source: one event, then WouldBlock forever.
pub struct Script {
    /// 0 = byte, 1 = WouldBlock, 2 = Other(err)
    pub kind: u8,
    pub byte: u8,
    pub err: u8,
    pub used: bool,
}
impl embedded_hal_02::serial::Read<u8> for Script {
    type Error = u8;
    fn read(&mut self) -> nb::Result<u8, u8> {
        if self.used {
            return Err(nb::Error::WouldBlock);
        }
        self.used = true;
        match self.kind {
            0 => Ok(self.byte),
            1 => Err(nb::Error::WouldBlock),
            _ => Err(nb::Error::Other(self.err)),
        }
    }
}

/// C11/C17: a fault arriving in ANY decoder phase. WouldBlock: reported with 0 discarded bytes,
/// decoder untouched. Other error: reported with exactly the bytes since the last boundary,
/// decoder as new.
pub fn h_c11_fault<const N: usize, S: Nd>(nd: &mut S, would_block: bool) -> Out {
    let tag = nd.u8();
    assume!(tag <= 4);
    let p: Pre<N> = draw(nd, tag);
    assume!(p.bl <= N);
    assume!(inv(&p.s, p.bl, RAW_MAX));
    let err = nd.u8();
    let src = Script { kind: if would_block { 1 } else { 2 }, byte: 0, err, used: false };
    let mut rd = SmlReader::with_static_buffer::<N>().from_eh_reader(src);
    *rd.verif_decoder_reader_mut().verif_decoder_mut() = build(&p);
    let since = since_boundary(&p.s);
    let r = rd.read::<DecodedBytes>();
    let (is_wb, is_other, n) = match r {
        Err(ReadDecodedError::IoErr(nb::Error::WouldBlock, n)) => (true, false, n),
        Err(ReadDecodedError::IoErr(nb::Error::Other(e), n)) => (false, e == err, n),
        _ => (false, false, usize::MAX),
    };
    let d = rd.verif_decoder_reader_mut().verif_decoder_mut();
    let s2 = d.verif_state();
    let bl2 = d.verif_buf().len();
    if would_block {
        check!(is_wb, "C11: would-block not surfaced as would-block");
        check!(n == 0, "C11: would-block must report zero discarded bytes");
        check!(norm(s2) == norm(p.s) && bl2 == p.bl, "C11/C08: would-block changed the decoder state (reading would not resume where it stopped; partial start sequence / noise count lost)");
        let buf = d.verif_buf();
        let mut i = 0;
        while i < N {
            if i < bl2 {
                check!(buf[i] == p.raw[i], "C11: would-block changed the buffered payload");
            }
            i += 1;
        }
    } else {
        check!(is_other, "C11: read error not returned");
        check!(n == since, "C11/C17: read error does not carry exactly the not-yet-reported byte count");
        check!(is_fresh(&s2, bl2), "C11: after a read error the reader must continue like a fresh reader");
    }
    cover!(!would_block && since > 0, "witness: error with bytes in flight");
    Out::Pass
}

/// C11/C17: end of input in ANY decoder phase (slice source): count exact, decoder as new,
/// `next()` is None iff nothing was pending, and stays None.
pub fn h_c11_eof<const N: usize, S: Nd>(nd: &mut S) -> Out {
    let tag = nd.u8();
    assume!(tag <= 4);
    let p: Pre<N> = draw(nd, tag);
    assume!(p.bl <= N);
    assume!(inv(&p.s, p.bl, RAW_MAX));
    let empty: [u8; 0] = [];
    let mut rd = SmlReader::with_static_buffer::<N>().from_slice(&empty);
    *rd.verif_decoder_reader_mut().verif_decoder_mut() = build(&p);
    let since = since_boundary(&p.s);
    let first = match rd.next::<DecodedBytes>() {
        None => None,
        Some(Err(ReadDecodedError::IoErr(_, n))) => Some(n),
        Some(_) => Some(usize::MAX),
    };
    if since == 0 {
        check!(first.is_none(), "C11: end of input with nothing pending must yield None");
    } else {
        check!(first == Some(since), "C11/C17: end of input must report exactly the pending byte count");
    }
    let d = rd.verif_decoder_reader_mut().verif_decoder_mut();
    let s2 = d.verif_state();
    let bl2 = d.verif_buf().len();
    check!(is_fresh(&s2, bl2), "C11: decoder not reset at end of input");
    let second = rd.next::<DecodedBytes>().is_none();
    check!(second, "C11: next() must keep returning None after end of input");
    cover!(since > 0, "witness: EOF with bytes pending");
    Out::Pass
}

/// C15: `DecoderReader::read` on one byte ≡ `Decoder::push_byte` on that byte (same result,
/// same post-state), from any decoder state.
pub fn h_c15_read_step<const N: usize, S: Nd>(nd: &mut S, tag: u8) -> Out {
    let p: Pre<N> = draw(nd, tag);
    assume!(p.bl <= N);
    assume!(inv(&p.s, p.bl, RAW_MAX));
    let src = Script { kind: 0, byte: p.b, err: 0, used: false };
    let mut rd = SmlReader::with_static_buffer::<N>().from_eh_reader(src);
    *rd.verif_decoder_reader_mut().verif_decoder_mut() = build(&p);
    let mut d2 = build(&p);
    let want = own(d2.push_byte(p.b));
    let r = rd.read::<DecodedBytes>();
    // after the byte the script answers WouldBlock, which read() surfaces when the byte produced nothing
    let got = match r {
        Ok(m) => R::Delivered(m.len()),
        Err(ReadDecodedError::DecodeErr(e)) => own(Err(e)),
        Err(ReadDecodedError::IoErr(nb::Error::WouldBlock, 0)) => R::Nothing,
        Err(ReadDecodedError::IoErr(_, _)) => R::InvalidEsc([0xde, 0xad, 0xbe, 0xef]),
    };
    check!(got == want, "C15: DecoderReader::read reports something else than Decoder::push_byte for the same byte");
    let d1 = rd.verif_decoder_reader_mut().verif_decoder_mut();
    check!(norm(d1.verif_state()) == norm(d2.verif_state()), "C15: DecoderReader leaves the decoder in a different state than push_byte");
    let (b1, b2) = (d1.verif_buf(), d2.verif_buf());
    check!(b1.len() == b2.len(), "C15: DecoderReader buffer differs");
    let mut i = 0;
    while i < N {
        if i < b1.len() {
            check!(b1[i] == b2[i], "C15: DecoderReader buffer differs");
        }
        i += 1;
    }
    Out::Pass
}

pub fn h_c11_wb4<S: Nd>(nd: &mut S) -> Out { h_c11_fault::<4, S>(nd, true) }
pub fn h_c11_err4<S: Nd>(nd: &mut S) -> Out { h_c11_fault::<4, S>(nd, false) }
pub fn h_c11_eof4<S: Nd>(nd: &mut S) -> Out { h_c11_eof::<4, S>(nd) }
pub fn h_c15_read4_t0<S: Nd>(nd: &mut S) -> Out { h_c15_read_step::<4, S>(nd, 0) }
pub fn h_c15_read4_t1<S: Nd>(nd: &mut S) -> Out { h_c15_read_step::<4, S>(nd, 1) }
pub fn h_c15_read4_t2<S: Nd>(nd: &mut S) -> Out { h_c15_read_step::<4, S>(nd, 2) }
pub fn h_c15_read4_t3<S: Nd>(nd: &mut S) -> Out { h_c15_read_step::<4, S>(nd, 3) }
pub fn h_c15_read4_t4<S: Nd>(nd: &mut S) -> Out { h_c15_read_step::<4, S>(nd, 4) }
proof!(c11_wb4, 10, h_c11_wb4);
proof!(c11_err4, 10, h_c11_err4);
proof!(c11_eof4, 10, h_c11_eof4);
proof!(c15_read4_t0, 10, h_c15_read4_t0);
proof!(c15_read4_t1, 10, h_c15_read4_t1);
proof!(c15_read4_t2, 10, h_c15_read4_t2);
proof!(c15_read4_t3, 10, h_c15_read4_t3);
proof!(c15_read4_t4, 10, h_c15_read4_t4);

pub fn register(v: &mut Vec<(&'static str, fn(&mut Replay) -> Out)>) {
    v.push(("c11_wb4", h_c11_wb4::<Replay>));
    v.push(("c11_err4", h_c11_err4::<Replay>));
    v.push(("c11_eof4", h_c11_eof4::<Replay>));
    v.push(("c15_read4_t0", h_c15_read4_t0::<Replay>));
    v.push(("c15_read4_t1", h_c15_read4_t1::<Replay>));
    v.push(("c15_read4_t2", h_c15_read4_t2::<Replay>));
    v.push(("c15_read4_t3", h_c15_read4_t3::<Replay>));
    v.push(("c15_read4_t4", h_c15_read4_t4::<Replay>));
}
