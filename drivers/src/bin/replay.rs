//! Native replay: `replay <chk_name> <hex input>` runs the identical check function on concrete bytes.
//! stdout: `OK <ret> heap=<bytes requested>` | `FAIL <code>` | `ASSUME-FAIL`; panics/aborts end the
//! process with a non-zero status (also a reproduction). `replay --batch` reads "name hex" lines.
use std::alloc::{GlobalAlloc, Layout, System};
use std::sync::atomic::{AtomicUsize, Ordering};

static REQUESTED: AtomicUsize = AtomicUsize::new(0);
/// allocator model shared with llsym: requests above this size fail (usize::MAX = never)
static FAIL_ABOVE: AtomicUsize = AtomicUsize::new(usize::MAX);
struct Counting;
unsafe impl GlobalAlloc for Counting {
    unsafe fn alloc(&self, l: Layout) -> *mut u8 {
        if l.size() > FAIL_ABOVE.load(Ordering::Relaxed) {
            return core::ptr::null_mut();
        }
        REQUESTED.fetch_add(l.size(), Ordering::Relaxed);
        System.alloc(l)
    }
    unsafe fn dealloc(&self, p: *mut u8, l: Layout) {
        System.dealloc(p, l)
    }
    unsafe fn alloc_zeroed(&self, l: Layout) -> *mut u8 {
        REQUESTED.fetch_add(l.size(), Ordering::Relaxed);
        System.alloc_zeroed(l)
    }
    unsafe fn realloc(&self, p: *mut u8, l: Layout, n: usize) -> *mut u8 {
        if n > FAIL_ABOVE.load(Ordering::Relaxed) {
            return core::ptr::null_mut();
        }
        REQUESTED.fetch_add(n, Ordering::Relaxed);
        System.realloc(p, l, n)
    }
}
#[global_allocator]
static A: Counting = Counting;

#[no_mangle]
pub extern "C" fn llsym_fail(code: u32) {
    println!("FAIL {}", code);
    std::process::exit(3);
}
#[no_mangle]
pub extern "C" fn llsym_assume(c: bool) {
    if !c {
        println!("ASSUME-FAIL");
        std::process::exit(0);
    }
}
#[no_mangle]
pub extern "C" fn llsym_cover(_id: u32) {}
#[no_mangle]
pub extern "C" fn llsym_heap_total() -> usize {
    REQUESTED.load(Ordering::Relaxed)
}

fn unhex(h: &str) -> Vec<u8> {
    (0..h.len() / 2).map(|i| u8::from_str_radix(&h[2 * i..2 * i + 2], 16).unwrap()).collect()
}

fn main() {
    let args: Vec<String> = std::env::args().collect();
    let table = smlverif_drivers::table();
    if args.len() >= 2 && args[1] == "--list" {
        for (n, _) in table.iter() {
            println!("{}", n);
        }
        return;
    }
    if args.len() >= 3 && args[1] == "--corpus" {
        // every transmission of every *.bin file in the directory: prints "<hex payload>" lines (one per decoded payload)
        let mut paths: Vec<_> = std::fs::read_dir(&args[2]).unwrap().map(|e| e.unwrap().path()).filter(|p| p.extension().map(|e| e == "bin").unwrap_or(false)).collect();
        paths.sort();
        for p in paths {
            let bytes = std::fs::read(&p).unwrap();
            let mut dec = sml_rs::transport::decode_streaming::<sml_rs::util::ArrayBuf<4096>>(bytes);
            while let Some(r) = dec.next() {
                if let Ok(m) = r {
                    let hex: String = m.iter().map(|b| format!("{:02x}", b)).collect();
                    println!("{}", hex);
                }
            }
        }
        return;
    }
    if args.len() >= 2 && args[1] == "--batch" {
        // lines "name hex" on stdin; each runs in a child process so that FAIL/abort of one does not stop the batch
        use std::io::BufRead;
        let exe = std::env::current_exe().unwrap();
        for line in std::io::stdin().lock().lines() {
            let line = line.unwrap();
            let mut it = line.split_whitespace();
            let n = match it.next() { Some(n) => n, None => continue };
            let h = it.next().unwrap_or("");
            let out = std::process::Command::new(&exe).arg(n).arg(h).output().unwrap();
            let so = String::from_utf8_lossy(&out.stdout);
            let last = so.lines().last().unwrap_or("");
            println!("{} {} status={}", n, if last.is_empty() { "ABORT" } else { last }, out.status.code().map(|c| c.to_string()).unwrap_or("signal".into()));
        }
        return;
    }
    let name = &args[1];
    let arg = args.get(2).map(|s| s.as_str()).unwrap_or("");
    let bytes = if let Some(path) = arg.strip_prefix('@') { unhex(std::fs::read_to_string(path).unwrap().trim()) } else { unhex(arg) };
    let f = table.iter().find(|(n, _)| *n == name.as_str()).expect("unknown check").1;
    if let Ok(v) = std::env::var("LLSYM_ALLOC_FAIL_ABOVE") {
        FAIL_ABOVE.store(v.parse().unwrap(), Ordering::Relaxed);
    }
    let h0 = llsym_heap_total();
    let r = f(bytes.as_ptr(), bytes.len());
    FAIL_ABOVE.store(usize::MAX, Ordering::Relaxed);
    println!("OK {} heap={}", r, llsym_heap_total() - h0);
}
