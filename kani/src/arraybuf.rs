//! C18 — `ArrayBuf<N>` ≡ ideal byte vector bounded by N (one STEP from an arbitrary raw state).
use crate::nd::{Nd, Out, Replay};
use sml_rs::util::{ArrayBuf, Buffer, OutOfMemory};

/// Ideal bounded vector: contents in `a[..n]`.
#[derive(Clone, Copy)]
struct Ideal<const M: usize> {
    a: [u8; M],
    n: usize,
}

fn visible_eq<const N: usize, const M: usize>(b: &ArrayBuf<N>, m: &Ideal<M>) -> bool {
    let s: &[u8] = &b[..];
    if s.len() != m.n {
        return false;
    }
    let mut i = 0;
    let mut ok = true;
    while i < N {
        if i < m.n && s[i] != m.a[i] {
            ok = false;
        }
        i += 1;
    }
    ok
}

/// One operation from an arbitrary raw state (arbitrary stale bytes, any length ≤ N).
/// M = N + 2 is the ideal vector's scratch size and the maximum extend length.
pub fn h_step<const N: usize, const M: usize, S: Nd>(nd: &mut S) -> Out {
    let raw: [u8; N] = nd.arr();
    let n = nd.usize();
    assume!(n <= N);
    let mut buf = ArrayBuf::<N>::verif_from_raw(raw, n);
    let mut ideal = Ideal::<M> { a: [0; M], n };
    let mut i = 0;
    while i < N {
        ideal.a[i] = raw[i];
        i += 1;
    }
    check!(visible_eq(&buf, &ideal), "C18: Deref does not expose exactly the logical prefix");
    let before = ideal;

    let op = nd.u8();
    assume!(op < 4);
    let b = nd.u8();
    let src: [u8; M] = nd.arr();
    let sl = nd.usize();
    assume!(sl <= M);
    let k = nd.usize();
    match op {
        0 => {
            let r = buf.push(b);
            if before.n < N {
                ideal.a[ideal.n] = b;
                ideal.n += 1;
                check!(r == Ok(()), "C18: push failed although there is room");
            } else {
                check!(r == Err(OutOfMemory), "C18: push succeeded on a full buffer");
            }
        }
        1 => {
            let r = buf.extend_from_slice(&src[..sl]);
            if before.n + sl <= N {
                let mut j = 0;
                while j < M {
                    if j < sl {
                        ideal.a[ideal.n + j] = src[j];
                    }
                    j += 1;
                }
                ideal.n += sl;
                check!(r == Ok(()), "C18: extend_from_slice failed although it fits");
            } else {
                check!(r == Err(OutOfMemory), "C18: extend_from_slice succeeded beyond capacity");
            }
            cover!(sl > 0 && before.n + sl == N, "C18 witness: extend fills the buffer exactly");
        }
        2 => {
            buf.truncate(k);
            if k < ideal.n {
                ideal.n = k;
            }
        }
        _ => {
            buf.clear();
            ideal.n = 0;
        }
    }
    check!(visible_eq(&buf, &ideal), "C18: contents differ from the ideal bounded vector (or a failing op changed them)");
    let (_, ne) = buf.verif_raw();
    check!(ne <= N, "C18: logical length exceeds capacity");
    Out::Pass
}

/// Equality depends only on the visible contents; from_iter of ≤ N bytes yields those bytes.
pub fn h_eq_iter<const N: usize, S: Nd>(nd: &mut S) -> Out {
    let raw1: [u8; N] = nd.arr();
    let raw2: [u8; N] = nd.arr();
    let n1 = nd.usize();
    let n2 = nd.usize();
    assume!(n1 <= N && n2 <= N);
    let b1 = ArrayBuf::<N>::verif_from_raw(raw1, n1);
    let b2 = ArrayBuf::<N>::verif_from_raw(raw2, n2);
    let mut same = n1 == n2;
    let mut i = 0;
    while i < N {
        if i < n1 && i < n2 && raw1[i] != raw2[i] {
            same = false;
        }
        i += 1;
    }
    check!((b1 == b2) == same, "C18: equality does not depend on exactly the visible contents");
    cover!(same && n1 < N, "C18 witness: equal buffers with free stale bytes");

    // from_iter
    let it = raw1[..n1].iter().copied();
    let c: ArrayBuf<N> = it.collect();
    check!(c == b1, "C18: from_iter does not yield exactly the iterated bytes");
    check!(c.len() == n1, "C18: from_iter length");
    // an iterator of at most N bytes whose size hint is loose (upper bound larger than N, lower bound 0)
    let big: [u8; 12] = nd.arr();
    let keep = nd.u8();
    let c2: ArrayBuf<N> = big.iter().copied().enumerate().filter(|(i, _)| *i < N && (keep >> (*i % 8)) & 1 == 1).map(|(_, b)| b).collect();
    let mut cnt = 0;
    let mut i = 0;
    while i < 12 {
        if i < N && (keep >> (i % 8)) & 1 == 1 {
            check!(c2[cnt] == big[i], "C18: from_iter (loose size hint) does not yield exactly the iterated bytes");
            cnt += 1;
        }
        i += 1;
    }
    check!(c2.len() == cnt, "C18: from_iter (loose size hint) length");
    Out::Pass
}

/// `Vec<u8>` as `Buffer`: same operations, growable (never OutOfMemory for these sizes).
pub fn h_vec<S: Nd>(nd: &mut S) -> Out {
    const N: usize = 3;
    let init: [u8; N] = nd.arr();
    let n = nd.usize();
    assume!(n <= N);
    let mut v: Vec<u8> = Vec::new();
    let mut i = 0;
    while i < N {
        if i < n {
            v.push(init[i]);
        }
        i += 1;
    }
    let op = nd.u8();
    assume!(op < 4);
    let b = nd.u8();
    let src: [u8; 2] = nd.arr();
    let sl = nd.usize();
    assume!(sl <= 2);
    let k = nd.usize();
    let mut exp = [0u8; 5];
    let mut en = n;
    i = 0;
    while i < N {
        exp[i] = init[i];
        i += 1;
    }
    match op {
        0 => {
            let r = Buffer::push(&mut v, b);
            check!(r == Ok(()), "C18: Vec push failed");
            exp[en] = b;
            en += 1;
        }
        1 => {
            let r = Buffer::extend_from_slice(&mut v, &src[..sl]);
            check!(r == Ok(()), "C18: Vec extend failed");
            let mut j = 0;
            while j < 2 {
                if j < sl {
                    exp[en + j] = src[j];
                }
                j += 1;
            }
            en += sl;
        }
        2 => {
            Buffer::truncate(&mut v, k);
            if k < en {
                en = k;
            }
        }
        _ => {
            Buffer::clear(&mut v);
            en = 0;
        }
    }
    check!(v.len() == en, "C18: Vec length differs from the ideal vector");
    i = 0;
    while i < 5 {
        if i < en {
            check!(v[i] == exp[i], "C18: Vec contents differ from the ideal vector");
        }
        i += 1;
    }
    Out::Pass
}


/// Capacities beyond 2^16: the logical length must not be held in a narrower counter. Backing bytes are
/// concrete zeros (only the length is symbolic), the operation is push / extend / truncate / clear.
pub fn h_big<const N: usize, S: Nd>(nd: &mut S) -> Out {
    let n = nd.usize();
    assume!(n <= N);
    let mut buf = ArrayBuf::<N>::verif_from_raw([0u8; N], n);
    check!(buf.len() == n, "C18: logical length not preserved for a large capacity (narrow counter?)");
    let op = nd.u8();
    assume!(op < 4);
    let b = nd.u8();
    let src: [u8; 3] = nd.arr();
    let sl = nd.usize();
    assume!(sl <= 3);
    let k = nd.usize();
    match op {
        0 => {
            let r = buf.push(b);
            if n < N {
                check!(r == Ok(()), "C18: push failed although there is room (large capacity)");
                check!(buf.len() == n + 1, "C18: length after push wrong (large capacity)");
                check!(buf[n] == b, "C18: pushed byte not visible (large capacity)");
            } else {
                check!(r == Err(OutOfMemory) && buf.len() == n, "C18: push on a full large buffer");
            }
        }
        1 => {
            let r = buf.extend_from_slice(&src[..sl]);
            if n + sl <= N {
                check!(r == Ok(()) && buf.len() == n + sl, "C18: extend_from_slice wrong for a large capacity");
                if sl > 0 {
                    check!(buf[n] == src[0], "C18: extended bytes not visible (large capacity)");
                }
            } else {
                check!(r == Err(OutOfMemory) && buf.len() == n, "C18: failing extend changed a large buffer");
            }
        }
        2 => {
            buf.truncate(k);
            check!(buf.len() == if k < n { k } else { n }, "C18: truncate wrong for a large capacity");
        }
        _ => {
            buf.clear();
            check!(buf.len() == 0, "C18: clear wrong for a large capacity");
        }
    }
    cover!(n >= 65536, "witness: more than 2^16 elements");
    Out::Pass
}
pub fn h_c18_big<S: Nd>(nd: &mut S) -> Out {
    h_big::<65600, S>(nd)
}
// no #[kani::proof]: a 64 KiB by-value array costs CBMC > 13 GB; the 2^16 boundary is checked by engine E2 (chk_arraybuf_big)

pub fn h_c18_step_0<S: Nd>(nd: &mut S) -> Out {
    h_step::<0, 2, S>(nd)
}
pub fn h_c18_step_1<S: Nd>(nd: &mut S) -> Out {
    h_step::<1, 3, S>(nd)
}
pub fn h_c18_step_2<S: Nd>(nd: &mut S) -> Out {
    h_step::<2, 4, S>(nd)
}
pub fn h_c18_step_5<S: Nd>(nd: &mut S) -> Out {
    h_step::<5, 7, S>(nd)
}
pub fn h_c18_step_8<S: Nd>(nd: &mut S) -> Out {
    h_step::<8, 10, S>(nd)
}
pub fn h_c18_eq_0<S: Nd>(nd: &mut S) -> Out {
    h_eq_iter::<0, S>(nd)
}
pub fn h_c18_eq_1<S: Nd>(nd: &mut S) -> Out {
    h_eq_iter::<1, S>(nd)
}
pub fn h_c18_eq_5<S: Nd>(nd: &mut S) -> Out {
    h_eq_iter::<5, S>(nd)
}
proof!(c18_step_0, 4, h_c18_step_0);
proof!(c18_step_1, 5, h_c18_step_1);
proof!(c18_step_2, 6, h_c18_step_2);
proof!(c18_step_5, 9, h_c18_step_5);
proof!(c18_step_8, 12, h_c18_step_8);
proof!(c18_eq_0, 14, h_c18_eq_0);
proof!(c18_eq_1, 14, h_c18_eq_1);
proof!(c18_eq_5, 14, h_c18_eq_5);
proof!(c18_vec, 8, h_vec);

pub fn register(v: &mut Vec<(&'static str, fn(&mut Replay) -> Out)>) {
    v.push(("c18_step_0", h_c18_step_0::<Replay>));
    v.push(("c18_step_1", h_c18_step_1::<Replay>));
    v.push(("c18_step_2", h_c18_step_2::<Replay>));
    v.push(("c18_step_5", h_c18_step_5::<Replay>));
    v.push(("c18_step_8", h_c18_step_8::<Replay>));
    v.push(("c18_eq_0", h_c18_eq_0::<Replay>));
    v.push(("c18_eq_1", h_c18_eq_1::<Replay>));
    v.push(("c18_eq_5", h_c18_eq_5::<Replay>));
    v.push(("c18_vec", h_vec::<Replay>));
    v.push(("c18_big", h_c18_big::<Replay>));
}
