//! E2 checks for the transport layer (C01, C02, C05, C07, C08, C14, C15, C16, C17).
use crate::spec::{spec_encode, start_at, START};
use crate::{assume, cover, fail, input};
use sml_rs::transport::{decode, decode_streaming, encode, encode_streaming, DecodeErr, Decoder, ReadDecodedError};
use sml_rs::util::{ArrayBuf, Buffer, OutOfMemory};
use sml_rs::{DecodedBytes, SmlReader};

/// One decoder event, owned.
#[derive(Clone, PartialEq, Eq, Debug)]
pub enum Ev {
    Data(Vec<u8>),
    Err(DecodeErr),
}

/// Drive a push decoder over `s`; returns the events with the index of the byte that caused them,
/// plus the finalize() result.
pub fn push_events<B: Buffer>(s: &[u8]) -> (Vec<(usize, Ev)>, Option<DecodeErr>) {
    let mut d = Decoder::<B>::new();
    let mut evs = Vec::new();
    for (i, b) in s.iter().enumerate() {
        match d.push_byte(*b) {
            Ok(None) => {}
            Ok(Some(m)) => evs.push((i, Ev::Data(m.to_vec()))),
            Err(e) => evs.push((i, Ev::Err(e))),
        }
    }
    let f = d.finalize();
    (evs, f)
}

// ------------------------------------------------------------------------------------------------
// C01 round trip (also exercises C16: capacity exactly |p|)
// ------------------------------------------------------------------------------------------------
fn expect_single<B: Buffer>(frame: &[u8], p: &[u8], code: u32) {
    let (evs, fin) = push_events::<B>(frame);
    if evs.len() != 1 {
        fail(code);
        return;
    }
    if evs[0].0 != frame.len() - 1 {
        fail(code + 1);
    }
    match &evs[0].1 {
        Ev::Data(m) => {
            if m.as_slice() != p {
                fail(code + 2);
            }
        }
        Ev::Err(_) => fail(code + 3),
    }
    if fin.is_some() {
        fail(code + 4);
    }
}

pub fn roundtrip<const N: usize>(p: &[u8]) -> u32 {
    // both encoders
    let f1 = match encode::<Vec<u8>>(p) {
        Ok(f) => f,
        Err(_) => {
            fail(100);
            return 0;
        }
    };
    let f2: Vec<u8> = encode_streaming(p).collect();
    if f1 != f2 {
        fail(101);
    }
    let frame = f1.as_slice();
    // push decoder: fixed buffer of exactly |p| bytes, and growable buffer
    expect_single::<ArrayBuf<N>>(frame, p, 110);
    expect_single::<Vec<u8>>(frame, p, 120);
    // push decoder built around an existing, non-empty buffer (Decoder::from_buf must start from an empty one)
    {
        let mut d = Decoder::from_buf(vec![0xde, 0xad, 0xbe, 0xef, 0x00]);
        let mut got = 0;
        for (i, b) in frame.iter().enumerate() {
            match d.push_byte(*b) {
                Ok(None) => {}
                Ok(Some(m)) => {
                    got += 1;
                    if i != frame.len() - 1 || m != p {
                        fail(181);
                    }
                }
                Err(_) => fail(182),
            }
        }
        if got != 1 || d.finalize().is_some() {
            fail(183);
        }
        let stale: ArrayBuf<N> = p.iter().map(|b| b ^ 0xff).collect();
        let mut d = Decoder::from_buf(stale);
        let mut got = 0;
        for (i, b) in frame.iter().enumerate() {
            match d.push_byte(*b) {
                Ok(None) => {}
                Ok(Some(m)) => {
                    got += 1;
                    if i != frame.len() - 1 || m != p {
                        fail(184);
                    }
                }
                Err(_) => fail(185),
            }
        }
        if got != 1 {
            fail(186);
        }
    }
    // decode()
    let d = decode(frame);
    if d.len() != 1 || d[0].as_ref().ok().map(|v| v.as_slice()) != Some(p) {
        fail(130);
    }
    // decode_streaming
    {
        let mut it = decode_streaming::<ArrayBuf<N>>(frame);
        match it.next() {
            Some(Ok(m)) => {
                if m != p {
                    fail(141);
                }
            }
            _ => fail(140),
        }
        if it.next().is_some() || it.next().is_some() {
            fail(142);
        }
    }
    // SmlReader over slice / iterator / io::Read
    {
        let mut r = SmlReader::with_static_buffer::<N>().from_slice(frame);
        match r.next::<DecodedBytes>() {
            Some(Ok(m)) => {
                if m != p {
                    fail(151);
                }
            }
            _ => fail(150),
        }
        if r.next::<DecodedBytes>().is_some() || r.next::<DecodedBytes>().is_some() {
            fail(152);
        }
    }
    {
        let mut r = SmlReader::with_vec_buffer().from_iterator(frame.iter());
        match r.next::<DecodedBytes>() {
            Some(Ok(m)) => {
                if m != p {
                    fail(161);
                }
            }
            _ => fail(160),
        }
        if r.next::<DecodedBytes>().is_some() {
            fail(162);
        }
        // an iterator that gives no size hint (lower bound 0) and yields owned bytes
        let mut r = SmlReader::with_static_buffer::<N>().from_iterator(frame.iter().copied().filter(|_| true));
        match r.next::<DecodedBytes>() {
            Some(Ok(m)) => {
                if m != p {
                    fail(164);
                }
            }
            _ => fail(163),
        }
        if r.next::<DecodedBytes>().is_some() {
            fail(165);
        }
    }
    {
        let mut r = SmlReader::with_static_buffer::<N>().from_reader(frame);
        match r.next::<DecodedBytes>() {
            Some(Ok(m)) => {
                if m != p {
                    fail(171);
                }
            }
            _ => fail(170),
        }
        if r.next::<DecodedBytes>().is_some() {
            fail(172);
        }
    }
    cover(1);
    frame.len() as u32
}

macro_rules! rt {
    ($($name:ident = $n:expr),+) => { $(
        #[no_mangle]
        pub extern "C" fn $name(p: *const u8, n: usize) -> u32 {
            let x = unsafe { input(p, n) };
            if x.len() != $n { return 0; }
            roundtrip::<$n>(x)
        }
    )+ };
}
rt!(chk_roundtrip_0 = 0, chk_roundtrip_1 = 1, chk_roundtrip_2 = 2, chk_roundtrip_3 = 3, chk_roundtrip_4 = 4, chk_roundtrip_5 = 5,
    chk_roundtrip_6 = 6, chk_roundtrip_7 = 7, chk_roundtrip_8 = 8, chk_roundtrip_9 = 9, chk_roundtrip_10 = 10);

/// Long payloads (only a few bytes symbolic): the default 8 KiB reader buffer and the growable buffer.
#[no_mangle]
pub extern "C" fn chk_roundtrip_long(ptr: *const u8, n: usize) -> u32 {
    let p = unsafe { input(ptr, n) };
    let f1 = match encode::<Vec<u8>>(p) {
        Ok(f) => f,
        Err(_) => {
            fail(100);
            return 0;
        }
    };
    let f2: Vec<u8> = encode_streaming(p).collect();
    if f1 != f2 {
        fail(101);
    }
    if f1 != spec_encode(p) {
        fail(102);
    }
    expect_single::<Vec<u8>>(&f1, p, 120);
    let mut r = SmlReader::from_slice(&f1);
    match r.next::<DecodedBytes>() {
        Some(Ok(m)) => {
            if m != p {
                fail(151);
            }
        }
        _ => fail(150),
    }
    if r.next::<DecodedBytes>().is_some() {
        fail(152);
    }
    cover(1);
    f1.len() as u32
}

// ------------------------------------------------------------------------------------------------
// C07 encoders vs the Transport v1 reference
// ------------------------------------------------------------------------------------------------
fn enc_cap<const C: usize>(p: &[u8], want: &[u8]) {
    match encode::<ArrayBuf<C>>(p) {
        Ok(b) => {
            if want.len() > C {
                fail(710);
            }
            if &b[..] != want {
                fail(711);
            }
        }
        Err(OutOfMemory) => {
            if want.len() <= C {
                fail(712);
            }
        }
    }
}

#[no_mangle]
pub extern "C" fn chk_encode(ptr: *const u8, n: usize) -> u32 {
    let p = unsafe { input(ptr, n) };
    let want = spec_encode(p);
    match encode::<Vec<u8>>(p) {
        Ok(f) => {
            if f != want {
                fail(701);
            }
        }
        Err(_) => fail(700),
    }
    let mut it = encode_streaming(p);
    let mut got: Vec<u8> = Vec::with_capacity(want.len() + 4);
    loop {
        match it.next() {
            Some(b) => got.extend_from_slice(&[b]),
            None => break,
        }
        if got.len() > want.len() + 8 {
            break;
        }
    }
    if got != want {
        fail(702);
    }
    if it.next().is_some() || it.next().is_some() || it.next().is_some() {
        fail(703);
    }
    // out-of-memory exactly when the frame does not fit: every capacity around every possible frame length
    enc_cap::<0>(p, &want);
    enc_cap::<7>(p, &want);
    enc_cap::<8>(p, &want);
    enc_cap::<15>(p, &want);
    enc_cap::<16>(p, &want);
    enc_cap::<17>(p, &want);
    enc_cap::<19>(p, &want);
    enc_cap::<20>(p, &want);
    enc_cap::<21>(p, &want);
    enc_cap::<23>(p, &want);
    enc_cap::<24>(p, &want);
    enc_cap::<25>(p, &want);
    enc_cap::<27>(p, &want);
    enc_cap::<28>(p, &want);
    enc_cap::<29>(p, &want);
    enc_cap::<31>(p, &want);
    enc_cap::<32>(p, &want);
    enc_cap::<33>(p, &want);
    enc_cap::<35>(p, &want);
    enc_cap::<36>(p, &want);
    enc_cap::<37>(p, &want);
    cover(7);
    want.len() as u32
}

// ------------------------------------------------------------------------------------------------
// C02 soundness, C17 tiling
// ------------------------------------------------------------------------------------------------
/// Every delivered payload is preceded by exactly its canonical frame.
#[no_mangle]
pub extern "C" fn chk_sound(ptr: *const u8, n: usize) -> u32 {
    let s = unsafe { input(ptr, n) };
    let (evs, _fin) = push_events::<ArrayBuf<64>>(s);
    // the same stream through a decoder built around an existing, non-empty buffer must report the same things
    {
        let stale: ArrayBuf<64> = [0xde, 0xad, 0xbe, 0xef, 0x00, 0x1b].iter().copied().collect();
        let mut d = Decoder::from_buf(stale);
        let mut k = 0usize;
        for (i, b) in s.iter().enumerate() {
            let r = match d.push_byte(*b) {
                Ok(None) => None,
                Ok(Some(m)) => Some(Ev::Data(m.to_vec())),
                Err(e) => Some(Ev::Err(e)),
            };
            if let Some(e) = r {
                match evs.get(k) {
                    Some((j, w)) => {
                        if *j != i || *w != e {
                            fail(203);
                        }
                    }
                    None => fail(204),
                }
                k += 1;
            }
        }
        if k != evs.len() {
            fail(205);
        }
    }
    let mut delivered = 0;
    for (i, ev) in evs.iter() {
        if let Ev::Data(m) = ev {
            delivered += 1;
            let want = spec_encode(m);
            let end = *i + 1;
            if want.len() > end {
                fail(201);
                continue;
            }
            if &s[end - want.len()..end] != want.as_slice() {
                fail(202);
            }
            cover(2);
        }
    }
    delivered
}

/// Frames, discarded-bytes reports and rejected frames tile the input.
#[no_mangle]
pub extern "C" fn chk_tiling(ptr: *const u8, n: usize) -> u32 {
    let s = unsafe { input(ptr, n) };
    let (evs, fin) = push_events::<ArrayBuf<64>>(s);
    let mut boundary = 0usize;
    for (i, ev) in evs.iter() {
        let end = *i + 1;
        match ev {
            Ev::Err(DecodeErr::DiscardedBytes(k)) => {
                // reported when a start sequence has just been completed: it occupies [end-8, end)
                if end < 8 || !start_at(s, end - 8) {
                    fail(1701);
                }
                if boundary + *k != end - 8 {
                    fail(1702);
                }
                if *k == 0 {
                    fail(1703);
                }
                boundary = end - 8;
            }
            Ev::Data(m) => {
                let fl = spec_encode(m).len();
                if boundary + fl != end {
                    fail(1704);
                }
                boundary = end;
                cover(17);
            }
            Ev::Err(_) => {
                // rejected frame: everything since the last boundary belongs to it
                boundary = end;
            }
        }
    }
    match fin {
        None => {
            if boundary != s.len() {
                fail(1705);
            }
        }
        Some(DecodeErr::DiscardedBytes(k)) => {
            if boundary + k != s.len() || k == 0 {
                fail(1706);
            }
        }
        Some(_) => fail(1707),
    }
    evs.len() as u32
}

// ------------------------------------------------------------------------------------------------
// C15 front-end agreement
// ------------------------------------------------------------------------------------------------
fn cmp_reader<R: sml_rs::util::ByteSource, B: Buffer>(mut r: SmlReader<R, B>, evs: &[(usize, Ev)], fin: &Option<DecodeErr>, code: u32)
where
    R::ReadError: core::fmt::Debug,
{
    let mut k = 0usize;
    loop {
        match r.next::<DecodedBytes>() {
            None => break,
            Some(Ok(m)) => {
                match evs.get(k) {
                    Some((_, Ev::Data(w))) => {
                        if w.as_slice() != m {
                            fail(code + 1);
                        }
                    }
                    _ => fail(code + 2),
                }
                k += 1;
            }
            Some(Err(ReadDecodedError::DecodeErr(e))) => {
                match evs.get(k) {
                    Some((_, Ev::Err(w))) => {
                        if *w != e {
                            fail(code + 3);
                        }
                    }
                    _ => fail(code + 4),
                }
                k += 1;
            }
            Some(Err(ReadDecodedError::IoErr(_, n))) => {
                // documented difference: leftover bytes surface as an end-of-file error with the same count
                match fin {
                    Some(DecodeErr::DiscardedBytes(w)) => {
                        if *w != n || k != evs.len() {
                            fail(code + 5);
                        }
                    }
                    _ => fail(code + 6),
                }
                if r.next::<DecodedBytes>().is_some() {
                    fail(code + 7);
                }
                return;
            }
        }
        if k > evs.len() + 2 {
            fail(code + 8);
            return;
        }
    }
    if k != evs.len() || fin.is_some() {
        fail(code + 9);
    }
}

#[no_mangle]
pub extern "C" fn chk_agree(ptr: *const u8, n: usize) -> u32 {
    let s = unsafe { input(ptr, n) };
    let (evs, fin) = push_events::<Vec<u8>>(s);
    // push decoder with a fixed buffer that is never exceeded
    let (evs2, fin2) = push_events::<ArrayBuf<64>>(s);
    if evs != evs2 || fin != fin2 {
        fail(1501);
    }
    // push decoder constructed with from_buf around a non-empty buffer
    {
        let mut d = Decoder::from_buf(vec![0xde, 0xad, 0x00, 0x1b]);
        let mut k = 0usize;
        for (i, b) in s.iter().enumerate() {
            let r = match d.push_byte(*b) {
                Ok(None) => None,
                Ok(Some(m)) => Some(Ev::Data(m.to_vec())),
                Err(e) => Some(Ev::Err(e)),
            };
            if let Some(e) = r {
                match evs.get(k) {
                    Some((j, w)) => {
                        if *j != i || *w != e {
                            fail(1502);
                        }
                    }
                    None => fail(1503),
                }
                k += 1;
            }
        }
        if k != evs.len() || d.finalize() != fin {
            fail(1504);
        }
    }
    // decode()
    let d = decode(s);
    let mut k = 0;
    for (_, e) in evs.iter() {
        match (e, d.get(k)) {
            (Ev::Data(a), Some(Ok(b))) => {
                if a != b {
                    fail(1511);
                }
            }
            (Ev::Err(a), Some(Err(b))) => {
                if a != b {
                    fail(1512);
                }
            }
            _ => fail(1513),
        }
        k += 1;
    }
    match (&fin, d.get(k)) {
        (None, None) => {}
        (Some(a), Some(Err(b))) => {
            if a != b || d.len() != k + 1 {
                fail(1514);
            }
        }
        _ => fail(1515),
    }
    // decode_streaming, fixed and growable buffer
    {
        let mut it = decode_streaming::<ArrayBuf<64>>(s);
        let mut k = 0;
        loop {
            match it.next() {
                None => break,
                Some(Ok(m)) => match evs.get(k) {
                    Some((_, Ev::Data(w))) => {
                        if w.as_slice() != m {
                            fail(1521);
                        }
                    }
                    _ => match (&fin, k == evs.len()) {
                        _ => fail(1522),
                    },
                },
                Some(Err(e)) => match evs.get(k) {
                    Some((_, Ev::Err(w))) => {
                        if *w != e {
                            fail(1523);
                        }
                    }
                    Some(_) => fail(1524),
                    None => {
                        if fin.as_ref() != Some(&e) || k != evs.len() {
                            fail(1525);
                        }
                    }
                },
            }
            k += 1;
            if k > evs.len() + 3 {
                fail(1526);
                break;
            }
        }
        let expect = evs.len() + if fin.is_some() { 1 } else { 0 };
        if k != expect {
            fail(1527);
        }
        if it.next().is_some() {
            fail(1528);
        }
    }
    // readers
    cmp_reader(SmlReader::with_static_buffer::<64>().from_slice(s), &evs, &fin, 1530);
    cmp_reader(SmlReader::with_vec_buffer().from_iterator(s.iter()), &evs, &fin, 1540);
    cmp_reader(SmlReader::with_static_buffer::<64>().from_reader(s), &evs, &fin, 1550);
    cmp_reader(SmlReader::from_slice(s), &evs, &fin, 1560);
    cmp_reader(SmlReader::with_static_buffer::<64>().from_iterator(s.iter().copied().filter(|_| true)), &evs, &fin, 1570);
    cover(15);
    evs.len() as u32
}

// ------------------------------------------------------------------------------------------------
// C16 capacity
// ------------------------------------------------------------------------------------------------
/// capacity C < |p|: exactly one OutOfMemory inside the frame, never data for it, and the next (fitting) frame is
/// delivered unaltered
fn under<const C: usize>(p: &[u8], frame: &[u8]) {
    if C >= p.len() {
        return;
    }
    // a concrete second frame that fits (the claim is only that the decoder is ready for it)
    let m2: Vec<u8> = (0..C).map(|i| 0x40 + i as u8).collect();
    let mut s = frame.to_vec();
    s.extend_from_slice(&spec_encode(&m2));
    let (evs, fin) = push_events::<ArrayBuf<C>>(&s);
    let mut oom = 0;
    let mut data = 0;
    for (i, e) in evs.iter() {
        match e {
            Ev::Err(DecodeErr::OutOfMemory) => {
                oom += 1;
                if *i >= frame.len() {
                    fail(1620);
                }
            }
            Ev::Data(m) => {
                data += 1;
                if *i != s.len() - 1 || m != &m2 {
                    fail(1621);
                }
            }
            Ev::Err(DecodeErr::DiscardedBytes(_)) => {}
            Ev::Err(_) => fail(1622),
        }
    }
    if oom != 1 {
        fail(1623);
    }
    if data != 1 {
        fail(1624);
    }
    if fin.is_some() {
        fail(1625);
    }
}

pub fn capacity<const L: usize, const LM1: usize>(p: &[u8]) -> u32 {
    let frame = spec_encode(p);
    // capacity exactly L: delivered
    expect_single::<ArrayBuf<L>>(&frame, p, 1600);
    {
        let mut r = SmlReader::with_static_buffer::<L>().from_slice(&frame);
        match r.next::<DecodedBytes>() {
            Some(Ok(m)) => {
                if m != p {
                    fail(1611);
                }
            }
            _ => fail(1610),
        }
    }
    // every capacity below L
    under::<0>(p, &frame);
    under::<1>(p, &frame);
    under::<2>(p, &frame);
    under::<3>(p, &frame);
    under::<4>(p, &frame);
    under::<5>(p, &frame);
    under::<6>(p, &frame);
    under::<7>(p, &frame);
    cover(16);
    1
}

macro_rules! cap {
    ($($name:ident = ($l:expr, $lm:expr)),+) => { $(
        #[no_mangle]
        pub extern "C" fn $name(p: *const u8, n: usize) -> u32 {
            let x = unsafe { input(p, n) };
            if x.len() != $l { return 0; }
            capacity::<$l, $lm>(x)
        }
    )+ };
}
cap!(chk_capacity_0 = (0, 0), chk_capacity_1 = (1, 0), chk_capacity_2 = (2, 1), chk_capacity_3 = (3, 2), chk_capacity_4 = (4, 3),
     chk_capacity_5 = (5, 4), chk_capacity_6 = (6, 5), chk_capacity_7 = (7, 6), chk_capacity_8 = (8, 7));

/// Default reader buffer (8 KiB): payload of 8192 bytes is delivered, 8193 is out of memory.
#[no_mangle]
pub extern "C" fn chk_capacity_default(ptr: *const u8, n: usize) -> u32 {
    let p = unsafe { input(ptr, n) };
    let frame = spec_encode(p);
    let mut r = SmlReader::from_slice(&frame);
    let first = r.next::<DecodedBytes>();
    if p.len() <= 8192 {
        match first {
            Some(Ok(m)) => {
                if m != p {
                    fail(1631);
                }
            }
            _ => fail(1630),
        }
    } else {
        match first {
            Some(Err(ReadDecodedError::DecodeErr(DecodeErr::OutOfMemory))) => {}
            _ => fail(1632),
        }
    }
    cover(16);
    1
}

// ------------------------------------------------------------------------------------------------
// C08 resynchronisation
// ------------------------------------------------------------------------------------------------
/// Input: [variant][glen] ‖ noise g (glen bytes) ‖ payload m (rest).
/// variant: decoder history before the noise (0 new, 1 after a delivered frame, 2 after an
/// invalid escape, 3 after reset() inside a frame, 4 after finalize() inside a frame).
#[no_mangle]
pub extern "C" fn chk_resync(ptr: *const u8, n: usize) -> u32 {
    let x = unsafe { input(ptr, n) };
    if x.len() < 2 {
        return 0;
    }
    let variant = x[0];
    let glen = x[1] as usize;
    if x.len() < 2 + glen {
        return 0;
    }
    let g = &x[2..2 + glen];
    let m = &x[2 + glen..];
    let frame = spec_encode(m);
    let mut s: Vec<u8> = g.to_vec();
    s.extend_from_slice(&frame);
    // precondition of C08: g ‖ START contains the start sequence only at offset |g|
    let mut off = 0;
    while off < glen {
        assume(!start_at(&s, off));
        off += 1;
    }
    let mut d = Decoder::<ArrayBuf<16>>::new();
    match variant {
        1 => {
            for b in spec_encode(&[1, 2, 3]) {
                let _ = d.push_byte(b);
            }
        }
        2 => {
            for b in [0x1b, 0x1b, 0x1b, 0x1b, 1, 1, 1, 1, 0x1b, 0x1b, 0x1b, 0x1b, 2, 0, 0, 0] {
                let _ = d.push_byte(b);
            }
        }
        3 => {
            for b in [0x1b, 0x1b, 0x1b, 0x1b, 1, 1, 1, 1, 0x55, 0, 0x1b] {
                let _ = d.push_byte(b);
            }
            d.reset();
        }
        4 => {
            for b in [0x1b, 0x1b, 0x1b, 0x1b, 1, 1, 1, 1, 0x55, 0, 0x1b, 0x1b, 0x1b, 0x1b, 0x1a] {
                let _ = d.push_byte(b);
            }
            let _ = d.finalize();
        }
        _ => {}
    }
    let mut k = 0;
    let mut seen_discard = false;
    let mut seen_data = false;
    for (i, b) in s.iter().enumerate() {
        match d.push_byte(*b) {
            Ok(None) => {}
            Err(DecodeErr::DiscardedBytes(c)) => {
                if seen_discard || seen_data || glen == 0 || c != glen || i != glen + 7 {
                    fail(801);
                }
                seen_discard = true;
            }
            Ok(Some(p)) => {
                if seen_data || i != s.len() - 1 || p != m {
                    fail(802);
                }
                seen_data = true;
            }
            Err(_) => fail(803),
        }
        k += 1;
    }
    if !seen_data {
        fail(804);
    }
    if glen > 0 && !seen_discard {
        fail(805);
    }
    if d.finalize().is_some() {
        fail(806);
    }
    cover(8);
    k
}

/// Input: [cut][l1] ‖ m1 (l1 bytes) ‖ m2 (rest). frame(m1) cut at `cut` (assumed: no 0x1b run or
/// escape sequence in progress there), followed by frame(m2).
#[no_mangle]
pub extern "C" fn chk_cut(ptr: *const u8, n: usize) -> u32 {
    let x = unsafe { input(ptr, n) };
    if x.len() < 3 {
        return 0;
    }
    let cut = x[0] as usize;
    let l1 = x[1] as usize;
    if x.len() < 2 + l1 {
        return 0;
    }
    let m1 = &x[2..2 + l1];
    let m2 = &x[2 + l1..];
    let f1 = spec_encode(m1);
    if cut < 8 || cut >= f1.len() {
        return 0;
    }
    // admissible cut: the kept prefix does not end in 0x1b and no escape sequence (1b1b1b1b + 4 bytes) is in progress
    assume(f1[cut - 1] != 0x1b);
    let mut j = 8;
    while j + 4 <= cut {
        if f1[j] == 0x1b && f1[j + 1] == 0x1b && f1[j + 2] == 0x1b && f1[j + 3] == 0x1b {
            // an escape starts at j: its 4 payload bytes must be complete
            if cut < j + 8 {
                return 0;
            }
            j += 8;
        } else {
            j += 1;
        }
    }
    // position of the end escape: after payload + padding
    let esc_at = f1.len() - 8;
    if cut > esc_at && cut < f1.len() {
        // inside the end sequence: an escape is in progress
        return 0;
    }
    let mut s: Vec<u8> = f1[..cut].to_vec();
    let f2 = spec_encode(m2);
    s.extend_from_slice(&f2);
    let (evs, fin) = push_events::<ArrayBuf<16>>(&s);
    if evs.len() != 2 {
        fail(811);
        return 0;
    }
    match &evs[0] {
        (i, Ev::Err(DecodeErr::DiscardedBytes(c))) => {
            if *c != cut || *i != cut + 7 {
                fail(812);
            }
        }
        _ => fail(813),
    }
    match &evs[1] {
        (i, Ev::Data(p)) => {
            if p.as_slice() != m2 || *i != s.len() - 1 {
                fail(814);
            }
        }
        _ => fail(815),
    }
    if fin.is_some() {
        fail(816);
    }
    cover(81);
    2
}

// ------------------------------------------------------------------------------------------------
// C14 concatenation at boundaries
// ------------------------------------------------------------------------------------------------
/// Input: [variant] ‖ s2. The decoder is first driven to a boundary (variant), then fed s2; its
/// events must equal those of a new decoder fed s2.
#[no_mangle]
pub extern "C" fn chk_concat(ptr: *const u8, n: usize) -> u32 {
    let x = unsafe { input(ptr, n) };
    if x.is_empty() {
        return 0;
    }
    let variant = x[0];
    let s2 = &x[1..];
    let mut d = Decoder::<ArrayBuf<8>>::new();
    let mut at_boundary = false;
    match variant {
        0 => {
            // delivered frame (payload ends in zeros and 0x1b to leave as much state as possible behind)
            for b in spec_encode(&[0x55, 0, 0, 0x1b]) {
                at_boundary = matches!(d.push_byte(b), Ok(Some(_)));
            }
        }
        1 => {
            // invalid message (bad checksum) with withheld zeros
            let mut f = spec_encode(&[0x55, 0, 0, 0]);
            let l = f.len();
            f[l - 1] ^= 0xff;
            for b in f {
                at_boundary = matches!(d.push_byte(b), Err(DecodeErr::InvalidMessage { .. }));
            }
        }
        2 => {
            for b in [0x1b, 0x1b, 0x1b, 0x1b, 1, 1, 1, 1, 0x55, 0, 0, 0, 0x1b, 0x1b, 0x1b, 0x1b, 2, 0, 0, 0] {
                at_boundary = matches!(d.push_byte(b), Err(DecodeErr::InvalidEsc(_)));
            }
        }
        3 => {
            // out of memory (9 payload bytes into an 8-byte buffer)
            for b in [0x1b, 0x1b, 0x1b, 0x1b, 1, 1, 1, 1, 1, 2, 3, 4, 5, 6, 7, 8, 9] {
                at_boundary = matches!(d.push_byte(b), Err(DecodeErr::OutOfMemory));
            }
        }
        4 => {
            for b in [0x1b, 0x1b, 0x1b, 0x1b, 1, 1, 1, 1, 0x55, 0, 0, 0x1b, 0x1b] {
                let _ = d.push_byte(b);
            }
            d.reset();
            at_boundary = true;
        }
        _ => {
            for b in [0x1b, 0x1b, 0x1b, 0x1b, 1, 1, 1, 1, 0x55, 0, 0, 0x1b, 0x1b, 0x1b, 0x1b, 0x1a] {
                let _ = d.push_byte(b);
            }
            let _ = d.finalize();
            at_boundary = true;
        }
    }
    if !at_boundary {
        // the prelude did not end where it was designed to: not this property's business
        return 0;
    }
    let mut f = Decoder::<ArrayBuf<8>>::new();
    for b in s2.iter() {
        let r1 = match d.push_byte(*b) {
            Ok(None) => None,
            Ok(Some(m)) => Some(Ev::Data(m.to_vec())),
            Err(e) => Some(Ev::Err(e)),
        };
        let r2 = match f.push_byte(*b) {
            Ok(None) => None,
            Ok(Some(m)) => Some(Ev::Data(m.to_vec())),
            Err(e) => Some(Ev::Err(e)),
        };
        if r1 != r2 {
            fail(1401);
        }
    }
    if d.finalize() != f.finalize() {
        fail(1402);
    }
    cover(14);
    1
}

// ------------------------------------------------------------------------------------------------
// C05 totality of every transport entry point on an arbitrary stream (panics / aborts / hangs are
// detected by the engine; here we only have to call everything)
// ------------------------------------------------------------------------------------------------
#[no_mangle]
pub extern "C" fn chk_total(ptr: *const u8, n: usize) -> u32 {
    let s = unsafe { input(ptr, n) };
    let a = push_events::<ArrayBuf<0>>(s).0.len();
    let b = push_events::<ArrayBuf<2>>(s).0.len();
    let c = push_events::<Vec<u8>>(s).0.len();
    let d = decode(s).len();
    let mut it = decode_streaming::<ArrayBuf<3>>(s);
    let mut e = 0;
    while it.next().is_some() {
        e += 1;
        if e > s.len() + 2 {
            fail(501);
            break;
        }
    }
    let _ = encode::<ArrayBuf<24>>(s);
    let _ = encode::<Vec<u8>>(s);
    let f = encode_streaming(s).count();
    // interleave reset / finalize with pushes
    let mut dec = Decoder::<ArrayBuf<4>>::new();
    for (i, x) in s.iter().enumerate() {
        let _ = dec.push_byte(*x);
        if i % 3 == 1 {
            let _ = dec.reset();
        }
        if i % 5 == 4 {
            let _ = dec.finalize();
        }
    }
    cover(5);
    (a + b + c + d + e + f) as u32
}

// ------------------------------------------------------------------------------------------------
// C18 / C05: capacities beyond 2^16 (a narrower length counter would wrap or overflow)
// ------------------------------------------------------------------------------------------------
#[no_mangle]
pub extern "C" fn chk_arraybuf_big(ptr: *const u8, n: usize) -> u32 {
    let x = unsafe { input(ptr, n) };
    if x.len() != 3 {
        return 0;
    }
    const N: usize = 65600;
    let mut b = ArrayBuf::<N>::default();
    let filler = [0x11u8; 65534];
    if b.extend_from_slice(&filler).is_err() || b.len() != 65534 {
        fail(1801);
    }
    // cross the 2^16 boundary one byte at a time
    for (i, v) in x.iter().enumerate() {
        if b.push(*v).is_err() {
            fail(1802);
        }
        if b.len() != 65535 + i || b[65534 + i] != *v {
            fail(1803);
        }
    }
    // ... and with a slice
    if b.extend_from_slice(x).is_err() || b.len() != 65540 || b[65537] != x[0] || b[65539] != x[2] || b[0] != 0x11 {
        fail(1804);
    }
    // exactly up to capacity, then one too many
    let rest = [0x22u8; N - 65540];
    if b.extend_from_slice(&rest).is_err() || b.len() != N {
        fail(1805);
    }
    if b.push(1).is_ok() || b.extend_from_slice(&[1]).is_ok() || b.len() != N {
        fail(1806);
    }
    b.truncate(65537);
    if b.len() != 65537 || b[65536] != x[2] {
        fail(1807);
    }
    b.truncate(70000);
    if b.len() != 65537 {
        fail(1808);
    }
    b.clear();
    if b.len() != 0 {
        fail(1809);
    }
    // the decoder on a payload longer than 2^16 bytes in a fixed buffer
    let mut d = Decoder::<ArrayBuf<N>>::new();
    for s in START.iter() {
        let _ = d.push_byte(*s);
    }
    let mut i = 0u32;
    while i < 65540 {
        if d.push_byte(0x33).is_err() {
            fail(1810);
            break;
        }
        i += 1;
    }
    for v in x.iter() {
        let _ = d.push_byte(*v);
    }
    cover(18);
    1
}

// ------------------------------------------------------------------------------------------------
// C07 / C05: the growable buffer under allocation failure (the allocator refuses requests above a threshold, both in
// the engine and in the native replay): out-of-memory is REPORTED, never an abort; what is returned is still correct
// ------------------------------------------------------------------------------------------------
/// reference frame into a fixed array (no heap, so that the oracle is not affected by the failing allocator)
fn spec_encode_into(p: &[u8], out: &mut [u8]) -> usize {
    let mut n = 0;
    for b in START.iter() {
        out[n] = *b;
        n += 1;
    }
    let mut run = 0;
    for &b in p {
        out[n] = b;
        n += 1;
        if b == 0x1b {
            run += 1;
            if run == 4 {
                let mut i = 0;
                while i < 4 {
                    out[n] = 0x1b;
                    n += 1;
                    i += 1;
                }
                run = 0;
            }
        } else {
            run = 0;
        }
    }
    let pad = (4 - n % 4) % 4;
    let mut i = 0;
    while i < pad {
        out[n] = 0;
        n += 1;
        i += 1;
    }
    for b in [0x1b, 0x1b, 0x1b, 0x1b, 0x1a, pad as u8] {
        out[n] = b;
        n += 1;
    }
    let c = crate::spec::crc16_x25(&out[..n]);
    out[n] = (c & 0xff) as u8;
    out[n + 1] = (c >> 8) as u8;
    n + 2
}

#[no_mangle]
pub extern "C" fn chk_vec_oom(ptr: *const u8, n: usize) -> u32 {
    let p = unsafe { input(ptr, n) };
    if p.len() > 300 {
        return 0;
    }
    let mut want = [0u8; 1024];
    let wn = spec_encode_into(p, &mut want);
    // buffer encoder into a Vec: Ok(frame) or Err(OutOfMemory), never an abort
    match encode::<Vec<u8>>(p) {
        Ok(f) => {
            if f.as_slice() != &want[..wn] {
                fail(721);
            }
        }
        Err(OutOfMemory) => cover(72),
    }
    // push decoder with a Vec buffer: the frame is delivered or out-of-memory is reported
    let mut d = Decoder::<Vec<u8>>::new();
    let mut delivered = false;
    let mut oom = false;
    let mut i = 0;
    while i < wn {
        match d.push_byte(want[i]) {
            Ok(None) => {}
            Ok(Some(m)) => {
                if m != p || i != wn - 1 {
                    fail(722);
                }
                delivered = true;
            }
            Err(DecodeErr::OutOfMemory) => oom = true,
            Err(DecodeErr::DiscardedBytes(_)) => {}
            Err(_) => {
                if !oom {
                    fail(723);
                }
            }
        }
        i += 1;
    }
    if delivered == oom {
        fail(724);
    }
    cover(71);
    wn as u32
}
