#!/bin/sh
# usage: par_seeded.sh <lane> <jobs> <id> [<id>...]
# Runs seeded changes in an isolated copy (/tmp/par_<lane>/{repo,verif}) so that several lanes can work in parallel and
# /repo itself is never touched. Results are copied back to /verif/seeded/<id>/result.json.
set -u
LANE=$1; JOBS=$2; shift 2
ROOT=/tmp/par_$LANE
if [ ! -d $ROOT/repo ]; then
  mkdir -p $ROOT
  git -C /repo worktree add -q --detach $ROOT/repo HEAD
  cp /repo/Cargo.lock $ROOT/repo/
fi
mkdir -p $ROOT/verif
rsync -a --delete --exclude .build --exclude .git --exclude replays --exclude 'target' /verif/ $ROOT/verif/
sed -i "s#path = \"/repo\"#path = \"$ROOT/repo\"#" $ROOT/verif/kani/Cargo.toml $ROOT/verif/drivers/Cargo.toml
export VERIF_REPO=$ROOT/repo VERIF_JOBS=$JOBS
cd $ROOT/verif
for id in "$@"; do
  d=/verif/seeded/$id
  prop=$(python3 -c "import json;m=json.load(open('$d/meta.json'));print(' '.join([m['property']]+m.get('also_check',[])))")
  git -C $ROOT/repo checkout -q -- . 
  if ! git -C $ROOT/repo apply $d/patch.diff; then echo "$id PATCH-FAILED"; continue; fi
  echo "{" > $ROOT/res.json; first=1
  for p in $prop; do
    s=$(date +%s)
    ./check $p > $ROOT/out_${id}_${p}.log 2> $ROOT/err_${id}_${p}.log; rc=$?
    e=$(date +%s)
    python3 - "$p" "$rc" "$((e-s))" "$ROOT/out_${id}_${p}.log" "$ROOT/err_${id}_${p}.log" "$first" >> $ROOT/res.json <<'PY'
import sys, json
p, rc, wall, out, err, first = sys.argv[1:7]
lines = [l.strip() for l in open(out) if l.startswith(('VIOLATION', 'INCONCLUSIVE', 'OK', 'KNOWN'))][:6]
msgs = [l.strip() for l in open(err) if l.startswith('  ')][:6]
print(('' if first == '1' else ',') + json.dumps(p) + ': ' + json.dumps({'exit': int(rc), 'wall_s': int(wall), 'lines': lines, 'messages': msgs}))
PY
    first=0
    echo "$id $p exit=$rc wall=$((e-s))s $(grep -m1 '^  ' $ROOT/err_${id}_${p}.log | cut -c1-160)"
  done
  echo "}" >> $ROOT/res.json
  cp $ROOT/res.json $d/result.json
  git -C $ROOT/repo checkout -q -- .
done
