"""GF(2)-affine reasoning layer in front of z3.

CRC computations are affine over GF(2) in the input bits. Proving that two differently
structured CRC circuits agree is the classic hard case for CDCL SAT, while it is trivial linear
algebra. This module (1) recognises bit-vector terms that are affine in the bits of the input
symbols, (2) keeps the affine equalities of the path condition in solved (Gaussian) form, and
(3) rewrites branch conditions modulo that system, so that implied / contradicted conditions
are decided without the solver and the rest reach z3 in a small canonical form.

Soundness: every equation in the system is a conjunct of the path condition, so a condition
that reduces to a constant is implied by the path condition; non-affine parts are passed to
z3 untouched."""
import z3

# an affine bit is (mask, const): XOR of the variable bits in `mask` XOR const
# variable index of bit k of input symbol i: 8*i + k


class Gf2:
    def __init__(s):
        s.rows = {}        # pivot var -> (mask without pivots, const)
        s.pivots = 0
        s.cache = {}       # ast id -> affine vector or None  (ASTs kept alive in keep)
        s.keep = []
        s.varsyms = {}     # symbol index -> z3 const

    # ---------------------------------------------------------------- linear system
    def reduce(s, mask, const):
        pm = mask & s.pivots
        while pm:
            p = pm.bit_length() - 1
            rm, rc = s.rows[p]
            mask ^= (1 << p) ^ rm
            const ^= rc
            pm = mask & s.pivots
        return mask, const

    def add_eq(s, mask, const):
        """add (mask ^ const == 0); returns False if it contradicts the system"""
        mask, const = s.reduce(mask, const)
        if mask == 0:
            return const == 0
        p = mask.bit_length() - 1
        rm = mask ^ (1 << p)
        # substitute into existing rows
        for q, (m2, c2) in list(s.rows.items()):
            if m2 >> p & 1:
                s.rows[q] = (m2 ^ (1 << p) ^ rm, c2 ^ const)
        s.rows[p] = (rm, const)
        s.pivots |= 1 << p
        return True

    # ---------------------------------------------------------------- term -> affine vector
    def affine(s, e):
        """list of (mask, const), LSB first, or None if `e` is not (recognisably) affine"""
        i = e.get_id()
        if i in s.cache:
            return s.cache[i]
        r = s._affine(e)
        s.cache[i] = r
        s.keep.append(e)
        return r

    def _affine(s, e):
        if not z3.is_bv(e):
            return None
        n = e.size()
        if z3.is_bv_value(e):
            v = e.as_long()
            return [(0, (v >> k) & 1) for k in range(n)]
        if not z3.is_app(e):
            return None
        d = e.decl()
        k = d.kind()
        ch = e.children()
        if k == z3.Z3_OP_UNINTERPRETED and not ch:
            name = d.name()
            if name[0] == 'b' and name[1:].isdigit() and n == 8:
                idx = int(name[1:])
                s.varsyms[idx] = e
                return [(1 << (8 * idx + b), 0) for b in range(8)]
            return None
        if k == z3.Z3_OP_BXOR:
            acc = None
            for c in ch:
                a = s.affine(c)
                if a is None: return None
                acc = a if acc is None else [(x[0] ^ y[0], x[1] ^ y[1]) for x, y in zip(acc, a)]
            return acc
        if k == z3.Z3_OP_BNOT:
            a = s.affine(ch[0])
            return None if a is None else [(m, c ^ 1) for m, c in a]
        if k == z3.Z3_OP_EXTRACT:
            a = s.affine(ch[0])
            if a is None: return None
            hi, lo = d.params()
            return a[lo:hi + 1]
        if k == z3.Z3_OP_CONCAT:
            out = []
            for c in reversed(ch):
                a = s.affine(c)
                if a is None: return None
                out.extend(a)
            return out
        if k == z3.Z3_OP_ZERO_EXT:
            a = s.affine(ch[0])
            return None if a is None else a + [(0, 0)] * d.params()[0]
        if k == z3.Z3_OP_SIGN_EXT:
            a = s.affine(ch[0])
            return None if a is None else a + [a[-1]] * d.params()[0]
        if k in (z3.Z3_OP_BAND, z3.Z3_OP_BOR):
            acc = None
            for c in ch:
                a = s.affine(c)
                if a is None: return None
                if acc is None:
                    acc = a; continue
                out = []
                for x, y in zip(acc, a):
                    # one side must be constant per bit
                    if x[0] == 0: cst, oth = x[1], y
                    elif y[0] == 0: cst, oth = y[1], x
                    else: return None
                    if k == z3.Z3_OP_BAND: out.append(oth if cst else (0, 0))
                    else: out.append((0, 1) if cst else oth)
                acc = out
            return acc
        if k in (z3.Z3_OP_BSHL, z3.Z3_OP_BLSHR, z3.Z3_OP_BASHR):
            if not z3.is_bv_value(ch[1]): return None
            a = s.affine(ch[0])
            if a is None: return None
            sh = ch[1].as_long()
            if sh >= n:
                return [(0, 0)] * n if k != z3.Z3_OP_BASHR else [a[-1]] * n
            if k == z3.Z3_OP_BSHL: return [(0, 0)] * sh + a[:n - sh]
            fill = (0, 0) if k == z3.Z3_OP_BLSHR else a[-1]
            return a[sh:] + [fill] * sh
        if k == z3.Z3_OP_ITE:
            cb = s.bool_bit(ch[0])
            if cb is None: return None
            t = s.affine(ch[1]); f = s.affine(ch[2])
            if t is None or f is None: return None
            out = []
            for x, y in zip(t, f):
                dm, dc = x[0] ^ y[0], x[1] ^ y[1]
                if dm != 0:
                    # sel * (variable difference): not affine unless the selector is constant
                    if cb[0] == 0: out.append(x if cb[1] else y); continue
                    return None
                # result = y ^ sel * dc
                out.append((y[0] ^ (cb[0] if dc else 0), y[1] ^ (cb[1] if dc else 0)))
            return out
        if k == z3.Z3_OP_BNEG:
            # -x where only bit 0 of x can be set: all result bits equal that bit
            a = s.affine(ch[0])
            if a is None: return None
            if all(m == 0 and c == 0 for m, c in a[1:]): return [a[0]] * n
            return None
        if k == z3.Z3_OP_BSUB and len(ch) == 2 and z3.is_bv_value(ch[0]) and ch[0].as_long() == 0:
            a = s.affine(ch[1])
            if a is None: return None
            if all(m == 0 and c == 0 for m, c in a[1:]): return [a[0]] * n
            return None
        if k == z3.Z3_OP_BMUL and len(ch) == 2:
            # (2^n - 1) * x with x in {0,1}
            for c0, c1 in ((ch[0], ch[1]), (ch[1], ch[0])):
                if z3.is_bv_value(c0) and c0.as_long() == (1 << n) - 1:
                    a = s.affine(c1)
                    if a is not None and all(m == 0 and c == 0 for m, c in a[1:]): return [a[0]] * n
            return None
        return None

    def bool_bit(s, c):
        """Boolean term -> affine bit (mask, const) or None. Handles bit tests, (in)equalities of 1-bit vectors,
        iff / xor of such terms and their negations."""
        i = c.get_id()
        key = ('B', i)
        if key in s.cache: return s.cache[key]
        r = s._bool_bit(c)
        s.cache[key] = r
        s.keep.append(c)
        return r

    def _bool_bit(s, c):
        if z3.is_true(c): return (0, 1)
        if z3.is_false(c): return (0, 0)
        if z3.is_not(c):
            b = s.bool_bit(c.arg(0))
            return None if b is None else (b[0], b[1] ^ 1)
        k = c.decl().kind()
        if z3.is_eq(c) or k == z3.Z3_OP_IFF:
            a, b = c.children()
            if z3.is_bv(a):
                if a.size() != 1: return None
                fa = s.affine(a); fb = s.affine(b)
                if fa is None or fb is None: return None
                return (fa[0][0] ^ fb[0][0], 1 ^ fa[0][1] ^ fb[0][1])
            if z3.is_bool(a):
                x = s.bool_bit(a); y = s.bool_bit(b)
                if x is None or y is None: return None
                return (x[0] ^ y[0], 1 ^ x[1] ^ y[1])
            return None
        if k == z3.Z3_OP_XOR:
            acc = (0, 0)
            for ch in c.children():
                x = s.bool_bit(ch)
                if x is None: return None
                acc = (acc[0] ^ x[0], acc[1] ^ x[1])
            return acc
        if k == z3.Z3_OP_ITE and z3.is_bool(c):
            sel = s.bool_bit(c.arg(0)); t = s.bool_bit(c.arg(1)); f = s.bool_bit(c.arg(2))
            if sel is None or t is None or f is None: return None
            if sel[0] == 0: return t if sel[1] else f
            dm, dc = t[0] ^ f[0], t[1] ^ f[1]
            if dm: return None
            return (f[0] ^ (sel[0] if dc else 0), f[1] ^ (sel[1] if dc else 0))
        return None

    # ---------------------------------------------------------------- conditions
    def atom(s, a, b):
        """a == b for affine a, b -> (list of reduced (mask, const) that must all be 0, reduced?) ; or True / False"""
        fa = s.affine(a); fb = s.affine(b)
        if fa is None or fb is None: return None
        bits = []
        changed = False
        for x, y in zip(fa, fb):
            m0, c0 = x[0] ^ y[0], x[1] ^ y[1]
            if m0 & s.pivots:
                m, c = s.reduce(m0, c0); changed = True
            else:
                m, c = m0, c0
            if m == 0:
                if c: return False
                if m0: changed = True
                continue
            bits.append((m, c))
        if not bits: return True
        return bits, changed

    def bits_to_z3(s, bits):
        out = []
        seen = set()
        for m, c in bits:
            if (m, c) in seen: continue
            seen.add((m, c))
            terms = []
            mm = m
            while mm:
                p = mm.bit_length() - 1
                mm ^= 1 << p
                terms.append(z3.Extract(p % 8, p % 8, s.var(p // 8)))
            e = terms[0]
            for t in terms[1:]: e = e ^ t
            out.append(e == z3.BitVecVal(c, 1))
        return out[0] if len(out) == 1 else z3.And(*out)

    def var(s, idx):
        v = s.varsyms.get(idx)
        if v is None: v = s.varsyms[idx] = z3.BitVec('b%d' % idx, 8)
        return v

    def rewrite(s, cond):
        """-> (cond', eqs, pure): cond' equivalent to cond under the system (z3 Bool, possibly BoolVal);
        eqs: affine equations that hold if cond' is decided True; pure: cond' is exactly the conjunction of eqs"""
        r = s._rw(cond)
        if r is True: return z3.BoolVal(True), [], False
        if r is False: return z3.BoolVal(False), [], False
        if r[0] == 'bits':
            return r[2], r[1], True
        if r[0] == 'and':
            eqs = []
            pure = True
            for p in r[1]:
                if p[0] == 'bits': eqs.extend(p[1])
                else: pure = False
            return r[2], eqs, pure
        return r[1], [], False

    def _rw(s, c):
        """returns True | False | ('bits', eqs, z3) | ('and', parts, z3) | ('z3', expr)"""
        if z3.is_true(c): return True
        if z3.is_false(c): return False
        if not z3.is_and(c) and not z3.is_or(c):
            bb = s.bool_bit(c)
            if bb is not None and not (z3.is_eq(c) and z3.is_bv(c.arg(0)) and c.arg(0).size() > 1):
                # the whole condition is one affine bit: true iff bit == 1
                m0, c0 = bb
                m, k = s.reduce(m0, c0)
                if m == 0: return bool(k)
                eq = [(m, k ^ 1)]
                return ('bits', eq, s.bits_to_z3(eq))
        if z3.is_eq(c):
            a, b = c.children()
            if z3.is_bv(a):
                r = s.atom(a, b)
                if r is True or r is False: return r
                if r is not None:
                    bits, changed = r
                    # keep the original atom only when it is already small (symbol/numeral on both sides);
                    # deeply nested originals (CRC circuits) are replaced by the canonical xor form
                    simple = all(z3.is_bv_value(t) or (z3.is_const(t) and t.decl().kind() == z3.Z3_OP_UNINTERPRETED) for t in (a, b))
                    return ('bits', bits, c if (simple and not changed) else s.bits_to_z3(bits))
            return ('z3', c)
        if z3.is_not(c):
            r = s._rw(c.arg(0))
            if r is True: return False
            if r is False: return True
            return ('z3', z3.Not(r[2] if r[0] in ('bits', 'and') else r[1]))
        if z3.is_and(c) or z3.is_or(c):
            is_and = z3.is_and(c)
            parts = []
            for ch in c.children():
                r = s._rw(ch)
                if r is True:
                    if is_and: continue
                    return True
                if r is False:
                    if is_and: return False
                    continue
                parts.append(r)
            if not parts: return True if is_and else False
            if len(parts) == 1: return parts[0]
            zs = [p[2] if p[0] in ('bits', 'and') else p[1] for p in parts]
            if is_and:
                flat = []
                for p in parts:
                    if p[0] == 'and': flat.extend(p[1])
                    else: flat.append(p)
                return ('and', flat, z3.And(*zs))
            return ('z3', z3.Or(*zs))
        return ('z3', c)
