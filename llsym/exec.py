"""Symbolic interpreter for the decoded LLVM IR (engine E2, "llsym").

Values: python int (concrete, already masked to the type width), z3 BitVecRef (symbolic),
None (undef/poison), list (first-class aggregate), SymTabPtr (pointer into a constant table
with a symbolic index). Pointers are plain 64-bit ints into a fake address space of disjoint
objects; every access is bounds checked."""
import bisect, re, sys, time
import z3
from ir import *
from gf2 import Gf2

sys.setrecursionlimit(20000)


# ----------------------------------------------------------------------------- path terminals
class PathEnd(Exception):
    """kind: ok | fail | panic | oob | infeasible | unsupported | budget"""
    def __init__(s, kind, info=''):
        s.kind = kind; s.info = info
    def __str__(s): return '%s: %s' % (s.kind, s.info)


def Unsupported(msg): return PathEnd('unsupported', msg)


class SymTabPtr:
    __slots__ = ('sym', 'off', 'idx', 'scale')
    def __init__(s, sym, off, idx, scale): s.sym = sym; s.off = off; s.idx = idx; s.scale = scale


def mask(v, bits): return v & ((1 << bits) - 1)
def sx(v, bits): return v - (1 << bits) if v >> (bits - 1) else v
def is_sym(v): return not isinstance(v, int)
def bv(v, bits): return z3.BitVecVal(v, bits) if isinstance(v, int) else v


def zsimplify(e):
    # bit2bool would turn 1-bit xors into nested Boolean ==/ite terms (exponentially bad for CRC circuits)
    return z3.simplify(e, bit2bool=False)


def simp(e):
    e = zsimplify(e)
    if z3.is_bv_value(e): return e.as_long()
    return e


# ----------------------------------------------------------------------------- memory
class Obj:
    __slots__ = ('cells', 'size', 'name', 'ro', 'alive')
    def __init__(s, cells, size, name, ro=False):
        s.cells = cells; s.size = size; s.name = name; s.ro = ro; s.alive = True


class World:
    """program + static memory image (globals, function addresses), shared by all paths"""
    def __init__(s, prog):
        s.prog = prog
        s.sbases = []; s.sobjs = {}
        s.gaddr = {}; s.fn_at = {}
        s.next = 0x100000
        s.decoders = {}
        s.linear_tables = {}   # global symbol -> (elem_bytes, n, basis) for GF(2)-linear constant tables
        for name, (ty, init, is_const) in prog.globals.items():
            size = prog.size_of(ty)
            s.gaddr[name] = s._salloc(size, name, is_const)
        for name in list(prog.funcs) + sorted(prog.decls):
            if name not in s.gaddr:
                a = s._salloc(1, 'fn:' + name, True); s.gaddr[name] = a; s.fn_at[a] = name
        for name, (ty, init, is_const) in prog.globals.items():
            if init is not None:
                s._write_const(s.gaddr[name], ty, init)
        s.dyn_start = s.next + 0x1000000
        s._find_linear_tables()

    def _salloc(s, size, name, ro):
        base = s.next
        s.next += ((size + 0xfff) // 0x1000 + 1) * 0x1000
        s.sobjs[base] = Obj([None] * size, size, name, ro)
        s.sbases.append(base)
        return base

    def _write_const(s, addr, ty, c):
        prog = s.prog; k = c[0]
        base = s.sbases[bisect.bisect_right(s.sbases, addr) - 1]; o = s.sobjs[base]; off = addr - base
        def put(cells):
            o.cells[off:off + len(cells)] = cells
        if k == 'bytes': put(list(c[1]))
        elif k == 'zero': put([0] * prog.size_of(ty))
        elif k == 'undef': pass
        elif k == 'int':
            n = prog.size_of(ty); put(list(mask(c[1], 8 * n).to_bytes(n, 'little')))
        elif k == 'gref':
            a = s.gaddr[c[1]] + c[2]; put(list(a.to_bytes(8, 'little')))
        elif k == 'struct':
            sty = StructTy([e[0] for e in c[1]], c[2])
            for i, (et, ec) in enumerate(c[1]): s._write_const(addr + prog.field_off(sty, i), et, ec)
        elif k == 'array':
            o2 = 0
            for et, ec in c[1]:
                s._write_const(addr + o2, et, ec); o2 += prog.size_of(et)
        else: raise IRSyntax('const kind ' + k)

    def _find_linear_tables(s):
        """Constant tables T of 2^k entries with T[i^j] = T[i]^T[j] (every CRC table is one) can be read at a
        symbolic index as the XOR of the basis entries selected by the index bits. Verified on all entries here,
        from the table bytes in the IR being executed — nothing about the polynomial is assumed."""
        for name, (ty, init, is_const) in s.prog.globals.items():
            if not is_const: continue
            o = s.sobjs[s.gaddr[name]]
            for eb in (2, 4, 8, 1):
                for n in (256,):
                    for start in range(0, max(1, o.size - eb * n + 1), 8):
                        if start + eb * n > o.size: break
                        cells = o.cells[start:start + eb * n]
                        if any(not isinstance(c, int) for c in cells): continue
                        vals = [int.from_bytes(bytes(cells[i * eb:(i + 1) * eb]), 'little') for i in range(n)]
                        if vals[0] != 0 or len(set(vals)) < n // 2: continue
                        basis = [vals[1 << b] for b in range(8)]
                        ok = True
                        for i in range(n):
                            x = 0
                            for b in range(8):
                                if i >> b & 1: x ^= basis[b]
                            if x != vals[i]: ok = False; break
                        if ok:
                            s.linear_tables.setdefault(name, []).append((start, eb, n, basis))

    def decoder(s, f):
        d = s.decoders.get(f.name)
        if d is None: d = s.decoders[f.name] = Decoder(s.prog, f)
        return d


class Limits:
    max_steps = 3_000_000
    solver_timeout_ms = 30_000
    max_fork_values = 4096


class Path:
    """state of one execution path"""
    def __init__(s, world, prefix=(), limits=Limits):
        s.w = world; s.prog = world.prog
        s.prefix = prefix; s.k = 0; s.trace = []
        s.alts = []                # alternative prefixes discovered on this path
        s.dbases = []; s.dobjs = {}; s.cow = {}
        s.next = world.dyn_start
        s.solver = z3.Solver(); s.solver.set('timeout', limits.solver_timeout_ms)
        s.model = None; s.pc_n = 0
        s.gf2 = Gf2()
        s.decided = {}; s.known = {}; s.keep = []   # keep: ASTs whose ids are used as keys must stay alive (z3 reuses ids)
        s.steps = 0; s.queries = 0; s.solver_s = 0.0
        s.limits = limits
        s.covers = set(); s.notes = []
        s.allocs = []              # (size int) of every heap request on this path
        s.alloc_policy = None      # None | ('max_total', n) | 'none'
        s.alloc_fail_above = None  # allocator model: requests above this size fail (return null)
        s.heap_total = 0
        s.fn_hits = set()
        s.depth = 0
        s.max_depth = 0
        s.expired = False

    # ---------------------------------------------------------------- solver
    def add(s, c):
        s.solver.add(c); s.pc_n += 1

    def check(s, extra):
        if s.expired: raise PathEnd('unsupported', 'path wall-clock limit exceeded')
        t0 = time.time()
        r = s.solver.check(extra)
        if r == z3.unknown:
            # one retry with a 4x budget (a loaded machine must not turn a decidable query into "inconclusive")
            s.solver.set('timeout', 4 * s.limits.solver_timeout_ms)
            r = s.solver.check(extra)
            s.solver.set('timeout', s.limits.solver_timeout_ms)
        s.solver_s += time.time() - t0; s.queries += 1
        if r == z3.unknown: raise Unsupported('solver returned unknown: ' + s.solver.reason_unknown())
        return r == z3.sat

    def feasible_model(s):
        """a model of the current path condition"""
        if s.model is None:
            t0 = time.time(); r = s.solver.check(); s.solver_s += time.time() - t0; s.queries += 1
            if r == z3.unsat: raise PathEnd('infeasible', 'path condition unsatisfiable')
            if r == z3.unknown: raise Unsupported('solver unknown')
            s.model = s.solver.model()
        return s.model

    def decide(s, cond):
        """cond: z3 Bool. Returns the branch taken on this path (forks recorded in s.alts)."""
        cond = zsimplify(cond)
        if z3.is_true(cond): return True
        if z3.is_false(cond): return False
        cid0 = cond.get_id()
        d = s.decided.get(cid0)
        if d is not None: return d
        orig = cond
        # GF(2) layer: decide / shrink the condition modulo the affine equalities of the path condition
        cond, eqs, pure = s.gf2.rewrite(cond)
        if z3.is_true(cond): return True
        if z3.is_false(cond): return False
        cid = cond.get_id()
        d = s.decided.get(cid)
        if d is not None: return d
        if s.k < len(s.prefix):
            d = s.prefix[s.k]
            if d is not True and d is not False: raise Unsupported('replay desynchronised (expected a branch decision)')
            s.model = None      # a replayed decision is added without a witness: any cached model is stale
        else:
            m = s.model
            if m is not None:
                side0 = z3.is_true(m.eval(cond, model_completion=True))
                m0 = m
            else:
                if s.check(cond):
                    side0 = True; m0 = s.solver.model()
                else:
                    side0 = None; m0 = None
            if side0 is None:
                # cond infeasible: the path condition itself must be satisfiable for NOT cond
                if not s.check(z3.Not(cond)): raise PathEnd('infeasible', 'both branch sides infeasible')
                d = False; s.model = s.solver.model()
            else:
                other = z3.Not(cond) if side0 else cond
                if s.check(other):
                    # both feasible: take True first, remember the alternative
                    m1 = s.solver.model()
                    d = True
                    s.alts.append(tuple(s.trace) + (False,))
                    s.model = m0 if side0 else m1
                else:
                    d = side0; s.model = m0
        s.k += 1
        s.trace.append(d)
        s.commit(cond, d, eqs, pure)
        s.decided[cid0] = d; s.keep.append(orig)
        return d

    def commit(s, cond, d, eqs, pure):
        """add a decided condition to the path condition and to the caches"""
        c = cond if d else z3.Not(cond)
        s.add(c)
        cid = cond.get_id()
        s.decided[cid] = d
        nc = z3.Not(cond)
        s.keep.append(cond); s.keep.append(nc)
        s.decided[nc.get_id()] = not d
        if z3.is_not(cond): s.decided[cond.arg(0).get_id()] = not d
        if d:
            for (m, k) in eqs: s.gf2.add_eq(m, k)
        elif pure and len(eqs) == 1:
            s.gf2.add_eq(eqs[0][0], eqs[0][1] ^ 1)
        if d and z3.is_eq(cond):
            a, b = cond.children()
            if z3.is_bv_value(b): s.known[a.get_id()] = b.as_long(); s.keep.append(a)
            elif z3.is_bv_value(a): s.known[b.get_id()] = a.as_long(); s.keep.append(b)

    def concretize(s, e, what='value'):
        """symbolic expression -> concrete int, forking over its feasible values.
        Trace entries are ('eq', v); the frontier entry ('ne', excluded) asks for a value not tried yet."""
        if isinstance(e, int): return e
        kv = s.known.get(e.get_id())
        if kv is not None: return kv
        e2 = zsimplify(e)
        if z3.is_bv_value(e2): return e2.as_long()
        if small_domain(e2):
            # flag-like value (ite tree over constants): decide its conditions as branches (they pass through the GF(2) layer)
            v = s.eval_small(e2)
            s.known[e.get_id()] = v; s.keep.append(e)
            return v
        excl = ()
        if s.k < len(s.prefix):
            ent = s.prefix[s.k]
            if not isinstance(ent, tuple): raise Unsupported('replay desynchronised (expected a value decision)')
            s.k += 1
            if ent[0] == 'eq':
                v = ent[1]
                s.trace.append(ent); s.add(e == v); s.known[e.get_id()] = v; s.keep.append(e)
                s.model = None
                return v
            excl = ent[1]
            for x in excl: s.add(e != x)
            s.model = None
        m = s.feasible_model()
        v = m.eval(e, model_completion=True).as_long()
        if len(excl) + 1 > s.limits.max_fork_values: raise Unsupported('too many values for ' + what)
        if s.check(e != v):
            s.alts.append(tuple(s.trace) + (('ne', excl + (v,)),))
        s.trace.append(('eq', v)); s.add(e == v); s.known[e.get_id()] = v; s.keep.append(e)
        s.model = m
        return v

    def eval_small(s, e):
        if z3.is_bv_value(e): return e.as_long()
        k = e.decl().kind()
        if k == z3.Z3_OP_ITE:
            return s.eval_small(e.arg(1)) if s.decide(e.arg(0)) else s.eval_small(e.arg(2))
        if k == z3.Z3_OP_ZERO_EXT: return s.eval_small(e.arg(0))
        if k == z3.Z3_OP_SIGN_EXT:
            c = e.arg(0); v = s.eval_small(c); n = c.size()
            return mask(sx(v, n), e.size())
        if k == z3.Z3_OP_EXTRACT:
            hi, lo = e.decl().params()
            return (s.eval_small(e.arg(0)) >> lo) & ((1 << (hi - lo + 1)) - 1)
        if k == z3.Z3_OP_CONCAT:
            v = 0
            for c in e.children(): v = (v << c.size()) | s.eval_small(c)
            return v
        raise Unsupported('eval_small on ' + e.decl().name())

    # ---------------------------------------------------------------- memory
    def alloc(s, size, name):
        base = s.next
        s.next += ((size + 0xfff) // 0x1000 + 1) * 0x1000
        s.dobjs[base] = Obj([None] * size, size, name)
        s.dbases.append(base)
        return base

    def find(s, addr, write=False):
        if not isinstance(addr, int):
            raise Unsupported('symbolic address')
        w = s.w
        if addr >= w.dyn_start:
            k = bisect.bisect_right(s.dbases, addr) - 1
            if k < 0: raise PathEnd('oob', 'bad pointer %#x' % addr)
            base = s.dbases[k]; o = s.dobjs[base]
            if not o.alive: raise PathEnd('oob', 'use after free/return of %s' % o.name)
        else:
            k = bisect.bisect_right(w.sbases, addr) - 1
            if k < 0: raise PathEnd('oob', 'null / bad pointer %#x' % addr)
            base = w.sbases[k]
            o = s.cow.get(base)
            if o is None:
                o = w.sobjs[base]
                if write:
                    if o.ro: raise PathEnd('oob', 'write to constant %s' % o.name)
                    o = Obj(list(o.cells), o.size, o.name); s.cow[base] = o
        if addr - base > o.size: raise PathEnd('oob', 'pointer %#x outside %s (size %d)' % (addr, o.name, o.size))
        return base, o

    def free(s, base):
        o = s.dobjs.get(base)
        if o is None or not o.alive: raise PathEnd('oob', 'invalid free %#x' % base)
        o.alive = False; o.cells = None

    def load_cells(s, addr, n):
        if n == 0: return []
        base, o = s.find(addr)
        off = addr - base
        if off + n > o.size: raise PathEnd('oob', 'load of %d bytes at offset %d outside %s (size %d)' % (n, off, o.name, o.size))
        return o.cells[off:off + n]

    def store_cells(s, addr, cells):
        if not cells: return
        base, o = s.find(addr, write=True)
        off = addr - base
        if off + len(cells) > o.size: raise PathEnd('oob', 'store of %d bytes at offset %d outside %s (size %d)' % (len(cells), off, o.name, o.size))
        o.cells[off:off + len(cells)] = cells

    def load_int(s, addr, nbytes, bits):
        if isinstance(addr, SymTabPtr): return s.load_table(addr, nbytes, bits)
        cells = s.load_cells(addr, nbytes)
        allint = True
        for c in cells:
            if not isinstance(c, int):
                allint = False; break
        if allint:
            v = int.from_bytes(bytes(cells), 'little')
            return v & ((1 << bits) - 1) if bits < 8 * nbytes else v
        if any(c is None for c in cells):
            # partially initialised (padding / niche bytes read by a wider load): uninitialised bytes read as 0;
            # a load of only uninitialised bytes stays undef
            if all(c is None for c in cells): return None
            cells = [0 if c is None else c for c in cells]
            if all(isinstance(c, int) for c in cells):
                v = int.from_bytes(bytes(cells), 'little')
                return v & ((1 << bits) - 1) if bits < 8 * nbytes else v
        if nbytes == 1: e = cells[0]
        else: e = z3.Concat(*[bv(c, 8) for c in reversed(cells)])
        if bits < 8 * nbytes: e = z3.Extract(bits - 1, 0, e)
        return simp(e)

    def store_int(s, addr, nbytes, v):
        if isinstance(addr, SymTabPtr): raise Unsupported('store through table pointer')
        if v is None: cells = [None] * nbytes
        elif isinstance(v, int): cells = list((v & ((1 << (8 * nbytes)) - 1)).to_bytes(nbytes, 'little'))
        elif isinstance(v, SymTabPtr): raise Unsupported('store of table pointer')
        else:
            if v.size() < 8 * nbytes: v = z3.ZeroExt(8 * nbytes - v.size(), v)
            if nbytes == 1: cells = [v]
            else:
                cells = []
                for k in range(nbytes):
                    c = zsimplify(z3.Extract(8 * k + 7, 8 * k, v))
                    cells.append(c.as_long() if z3.is_bv_value(c) else c)
        s.store_cells(addr, cells)

    def load_table(s, p, nbytes, bits):
        """load through a pointer into a constant global with a symbolic index"""
        w = s.w
        base = p.sym; o = w.sobjs[base]
        idx = p.idx
        for (start, eb, n, basis) in w.linear_tables.get(o.name, []):
            if p.off == start and p.scale == eb and nbytes == eb:
                # index must be < n: ask the solver (out-of-bounds read otherwise)
                ib = idx.size()
                if s.decide(z3.UGE(idx, z3.BitVecVal(n, ib))):
                    raise PathEnd('oob', 'table index out of range in %s' % o.name)
                acc = z3.BitVecVal(0, 8 * eb)
                for b in range(8):
                    bit = z3.Extract(b, b, idx)
                    acc = acc ^ z3.If(bit == 1, z3.BitVecVal(basis[b], 8 * eb), z3.BitVecVal(0, 8 * eb))
                e = simp(acc)
                if bits < 8 * nbytes and not isinstance(e, int): e = simp(z3.Extract(bits - 1, 0, e))
                return e
        # generic constant table: enumerate feasible indices
        v = s.concretize(idx, 'table index')
        ib = idx.size()
        return s.load_int(base + p.off + sx(v, ib) * p.scale, nbytes, bits)


# ----------------------------------------------------------------------------- arithmetic
def binop(op, a, b, bits):
    # undef operand: LLVM's undef is per bit (e.g. `or (zext tag), (shl undef_payload, 8)` keeps the tag), so it is
    # modelled as an arbitrary-but-fixed value, 0 (what `freeze` may pick); only a directly loaded undef stays undef
    if a is None: a = 0
    if b is None: b = 0
    if isinstance(a, int) and isinstance(b, int):
        if op == 'add': return (a + b) & ((1 << bits) - 1)
        if op == 'sub': return (a - b) & ((1 << bits) - 1)
        if op == 'mul': return (a * b) & ((1 << bits) - 1)
        if op == 'and': return a & b
        if op == 'or': return a | b
        if op == 'xor': return a ^ b
        if op == 'shl': return (a << b) & ((1 << bits) - 1) if b < bits else None
        if op == 'lshr': return a >> b if b < bits else None
        if op == 'ashr': return mask(sx(a, bits) >> b, bits) if b < bits else None
        if op == 'udiv':
            if b == 0: raise PathEnd('panic', 'division by zero (udiv)')
            return a // b
        if op == 'urem':
            if b == 0: raise PathEnd('panic', 'division by zero (urem)')
            return a % b
        if op == 'sdiv':
            if b == 0: raise PathEnd('panic', 'division by zero (sdiv)')
            q = abs(sx(a, bits)) // abs(sx(b, bits))
            if (sx(a, bits) < 0) != (sx(b, bits) < 0): q = -q
            return mask(q, bits)
        if op == 'srem':
            if b == 0: raise PathEnd('panic', 'division by zero (srem)')
            sa, sb = sx(a, bits), sx(b, bits)
            r = abs(sa) % abs(sb)
            return mask(-r if sa < 0 else r, bits)
        raise Unsupported(op)
    if isinstance(a, SymTabPtr) or isinstance(b, SymTabPtr): raise Unsupported('arithmetic on table pointer')
    A = bv(a, bits); B = bv(b, bits)
    if op == 'add': r = A + B
    elif op == 'sub': r = A - B
    elif op == 'mul': r = A * B
    elif op == 'and': r = A & B
    elif op == 'or': r = A | B
    elif op == 'xor': r = A ^ B
    elif op == 'shl': r = A << B
    elif op == 'lshr': r = z3.LShR(A, B)
    elif op == 'ashr': r = A >> B
    elif op == 'udiv': r = z3.UDiv(A, B)
    elif op == 'urem': r = z3.URem(A, B)
    elif op == 'sdiv': r = A / B
    elif op == 'srem': r = z3.SRem(A, B)
    else: raise Unsupported(op)
    return simp(r)


def icmp(pred, a, b, bits):
    if a is None or b is None: return None
    if isinstance(a, int) and isinstance(b, int):
        if pred == 'eq': return int(a == b)
        if pred == 'ne': return int(a != b)
        if pred == 'ult': return int(a < b)
        if pred == 'ule': return int(a <= b)
        if pred == 'ugt': return int(a > b)
        if pred == 'uge': return int(a >= b)
        sa, sb = sx(a, bits), sx(b, bits)
        if pred == 'slt': return int(sa < sb)
        if pred == 'sle': return int(sa <= sb)
        if pred == 'sgt': return int(sa > sb)
        if pred == 'sge': return int(sa >= sb)
        raise Unsupported(pred)
    if isinstance(a, SymTabPtr) or isinstance(b, SymTabPtr): raise Unsupported('compare of table pointer')
    A = bv(a, bits); B = bv(b, bits)
    if pred == 'eq': c = A == B
    elif pred == 'ne': c = A != B
    elif pred == 'ult': c = z3.ULT(A, B)
    elif pred == 'ule': c = z3.ULE(A, B)
    elif pred == 'ugt': c = z3.UGT(A, B)
    elif pred == 'uge': c = z3.UGE(A, B)
    elif pred == 'slt': c = A < B
    elif pred == 'sle': c = A <= B
    elif pred == 'sgt': c = A > B
    elif pred == 'sge': c = A >= B
    else: raise Unsupported(pred)
    c = zsimplify(c)
    if z3.is_true(c): return 1
    if z3.is_false(c): return 0
    return z3.If(c, ONE1, ZERO1)


ONE1 = z3.BitVecVal(1, 1)
ZERO1 = z3.BitVecVal(0, 1)


def as_cond(v, memo=None):
    """symbolic i1 -> z3 Bool, unfolding 1-bit and / or / not / ite(c,1,0) into Boolean structure so that the
    GF(2) layer sees the individual atoms of a compound branch condition. xor chains stay bit-vector terms (they
    are affine atoms); shared subterms are unfolded once (memo)."""
    if z3.is_bv_value(v): return z3.BoolVal(v.as_long() == 1)
    if memo is None: memo = {}
    i = v.get_id()
    r = memo.get(i)
    if r is not None: return r
    r = None
    if z3.is_app(v) and len(memo) < 2000:
        k = v.decl().kind()
        if k == z3.Z3_OP_ITE:
            c, t, e = v.children()
            if z3.is_bv_value(t) and z3.is_bv_value(e):
                if t.as_long() == 1 and e.as_long() == 0: r = c
                elif t.as_long() == 0 and e.as_long() == 1: r = z3.Not(c)
        elif k == z3.Z3_OP_BOR: r = z3.Or(*[as_cond(c, memo) for c in v.children()])
        elif k == z3.Z3_OP_BAND: r = z3.And(*[as_cond(c, memo) for c in v.children()])
        elif k == z3.Z3_OP_BNOT:
            a = v.arg(0)
            if z3.is_app(a) and a.decl().kind() in (z3.Z3_OP_ITE, z3.Z3_OP_BOR, z3.Z3_OP_BAND):
                r = z3.Not(as_cond(a, memo))
    if r is None: r = v == ONE1
    memo[i] = r
    return r


def small_domain(e, depth=0):
    """True if `e` is a tree of ite / extensions / extracts over constants only (a flag- or counter-like value:
    few possible values). Such operands of add/sub/mul are concretised (forked) instead of building arithmetic over
    conditions, which keeps counters concrete."""
    if depth > 6: return False
    if z3.is_bv_value(e): return True
    if not z3.is_app(e): return False
    k = e.decl().kind()
    if k == z3.Z3_OP_ITE:
        return small_domain(e.arg(1), depth + 1) and small_domain(e.arg(2), depth + 1)
    if k in (z3.Z3_OP_ZERO_EXT, z3.Z3_OP_SIGN_EXT, z3.Z3_OP_EXTRACT):
        return small_domain(e.arg(0), depth + 1)
    if k == z3.Z3_OP_CONCAT:
        return all(small_domain(c, depth + 1) for c in e.children())
    return False


# ----------------------------------------------------------------------------- interpreter
ARITH = ('add', 'sub', 'mul', 'udiv', 'urem', 'sdiv', 'srem')


class Frame:
    __slots__ = ('regs', 'allocas')
    def __init__(s): s.regs = {}; s.allocas = []


class Interp:
    def __init__(s, path):
        s.p = path; s.w = path.w; s.prog = path.prog
        s.plan_cache = {}

    # -- operand evaluation
    def val(s, fr, op):
        k = op[0]
        if k == 'r':
            v = fr.regs[op[1]]
            if v.__class__ is z3.BitVecRef:
                kv = s.p.known.get(v.get_id())
                if kv is not None: return kv
            return v
        if k == 'k': return op[1]
        if k == 'g': return s.w.gaddr[op[1]] + op[2]
        if k == 'agg': return [s.val(fr, e) for e in op[1]]
        raise Unsupported('operand kind ' + k)

    def plan(s, ty):
        """layout plan of a type: ('s', offset, nbytes, bits) scalars in order / nested lists for aggregates"""
        key = repr(ty)
        pl = s.plan_cache.get(key)
        if pl is None:
            pl = s.plan_cache[key] = s._plan(ty, 0)
        return pl

    def _plan(s, ty, off):
        rt = s.prog.resolve(ty)
        if isinstance(rt, StructTy):
            return ['agg'] + [s._plan(e, off + s.prog.field_off(rt, i)) for i, e in enumerate(rt.els)]
        if isinstance(rt, ArrTy):
            sz = s.prog.size_of(rt.el)
            return ['agg'] + [s._plan(rt.el, off + i * sz) for i in range(rt.n)]
        if isinstance(rt, PtrTy): return ('s', off, 8, 64)
        return ('s', off, (rt.bits + 7) // 8, rt.bits)

    def load_plan(s, addr, pl):
        if pl[0] == 's':
            return s.p.load_int(addr + pl[1] if isinstance(addr, int) else addr, pl[2], pl[3])
        return [s.load_plan(addr, e) for e in pl[1:]]

    def store_plan(s, addr, pl, v):
        if pl[0] == 's':
            s.p.store_int(addr + pl[1], pl[2], v)
        else:
            for e, x in zip(pl[1:], v): s.store_plan(addr, e, x)

    # -- function execution
    def call(s, name, args):
        f = s.prog.funcs.get(name)
        if f is None: return s.external(name, args)
        p = s.p
        p.fn_hits.add(name)
        p.depth += 1
        if p.depth > p.max_depth: p.max_depth = p.depth
        if p.depth > 400: raise PathEnd('budget', 'call depth > 400 (unbounded recursion?)')
        dec = s.w.decoder(f)
        decoded = f.decoded
        fr = Frame()
        regs = fr.regs
        for (t, n), a in zip(f.params, args): regs[n] = a
        cur = f.entry; prev = None
        val = s.val
        try:
            while True:
                insts = decoded.get(cur)
                if insts is None:
                    insts = decoded[cur] = [dec.decode(t) for t in f.blocks[cur]]
                # phis (evaluated simultaneously)
                k = 0
                n = len(insts)
                if insts[0][0] == 'phi':
                    new = []
                    while k < n and insts[k][0] == 'phi':
                        ins = insts[k]
                        new.append((ins[1], val(fr, ins[2][prev])))
                        k += 1
                    for d, v in new: regs[d] = v
                p.steps += n
                if p.steps > p.limits.max_steps: raise PathEnd('budget', 'step budget exhausted (%d IR instructions)' % p.steps)
                if p.expired: raise PathEnd('unsupported', 'path wall-clock limit exceeded')
                nxt = None
                while k < n:
                    ins = insts[k]; k += 1
                    op = ins[0]
                    if op == 'load':
                        a = val(fr, ins[3])
                        if a.__class__ is z3.BitVecRef: a = p.concretize(a, 'pointer')
                        regs[ins[1]] = s.load_plan(a, s.plan(ins[2]))
                    elif op == 'store':
                        a = val(fr, ins[3])
                        if a.__class__ is z3.BitVecRef: a = p.concretize(a, 'pointer')
                        if not isinstance(a, int): raise Unsupported('store to non-concrete address')
                        s.store_plan(a, s.plan(ins[1]), val(fr, ins[2]))
                    elif op == 'gep':
                        regs[ins[1]] = s.gep(fr, ins)
                    elif op == 'bin':
                        a = val(fr, ins[4]); b = val(fr, ins[5])
                        if ins[2] in ARITH:
                            if a.__class__ is z3.BitVecRef and small_domain(a): a = p.concretize(a, 'flag/counter operand')
                            if b.__class__ is z3.BitVecRef and small_domain(b): b = p.concretize(b, 'flag/counter operand')
                        regs[ins[1]] = binop(ins[2], a, b, ins[3])
                    elif op == 'icmp':
                        regs[ins[1]] = icmp(ins[2], val(fr, ins[4]), val(fr, ins[5]), ins[3])
                    elif op == 'condbr':
                        c = val(fr, ins[1])
                        if c is None: raise PathEnd('unsupported', 'branch on undef in ' + name)
                        if not isinstance(c, int): c = 1 if p.decide(as_cond(c)) else 0
                        nxt = ins[2] if c else ins[3]
                        break
                    elif op == 'br':
                        nxt = ins[1]; break
                    elif op == 'cast':
                        regs[ins[1]] = s.cast(ins[2], ins[3], ins[4], val(fr, ins[5]))
                    elif op == 'call':
                        cal = ins[2]
                        if cal[0] == 'g': callee = cal[1]
                        else:
                            a = val(fr, cal)
                            callee = s.w.fn_at.get(a)
                            if callee is None: raise Unsupported('indirect call to non-function %r' % (a,))
                        r = s.call(callee, [val(fr, x) for x in ins[3]])
                        if ins[1] is not None: regs[ins[1]] = r
                    elif op == 'select':
                        c = val(fr, ins[2]); a = val(fr, ins[4]); b = val(fr, ins[5])
                        if c is None: regs[ins[1]] = None
                        elif isinstance(c, int): regs[ins[1]] = a if c else b
                        else:
                            if ins[3] is None or isinstance(a, (list, SymTabPtr)) or isinstance(b, (list, SymTabPtr)):
                                # aggregate select on a symbolic condition: decide it
                                regs[ins[1]] = a if p.decide(as_cond(c)) else b
                            elif a is None or b is None:
                                regs[ins[1]] = a if p.decide(as_cond(c)) else b
                            elif isinstance(a, int) and isinstance(b, int) and a == b:
                                regs[ins[1]] = a
                            else:
                                regs[ins[1]] = simp(z3.If(as_cond(c), bv(a, ins[3]), bv(b, ins[3])))
                    elif op == 'alloca':
                        a = p.alloc(ins[2], 'alloca %s in %s' % (ins[1], name[:60])); fr.allocas.append(a); regs[ins[1]] = a
                    elif op == 'ret':
                        return None if ins[1] is None else val(fr, ins[1])
                    elif op == 'switch':
                        v = val(fr, ins[2])
                        if v is None: raise Unsupported('switch on undef')
                        nxt = ins[3]
                        if isinstance(v, int):
                            for c, l in ins[4]:
                                if v == c: nxt = l; break
                        else:
                            for c, l in ins[4]:
                                if p.decide(v == c): nxt = l; break
                        break
                    elif op == 'extractvalue':
                        v = val(fr, ins[2])
                        for i in ins[3]: v = v[i]
                        regs[ins[1]] = v
                    elif op == 'insertvalue':
                        regs[ins[1]] = s.insertvalue(val(fr, ins[2]), val(fr, ins[3]), ins[4])
                    elif op == 'freeze':
                        v = val(fr, ins[2])
                        if v is None:
                            rt = s.prog.resolve(ins[3]); v = 0
                        regs[ins[1]] = v
                    elif op == 'unreachable':
                        raise PathEnd('panic', 'unreachable executed in ' + name)
                    else:
                        raise Unsupported('opcode ' + op)
                prev, cur = cur, nxt
        finally:
            p.depth -= 1
            for a in fr.allocas:
                o = p.dobjs[a]; o.alive = False; o.cells = None

    def insertvalue(s, agg, e, idx):
        agg = list(agg)
        if len(idx) == 1: agg[idx[0]] = e
        else: agg[idx[0]] = s.insertvalue(agg[idx[0]], e, idx[1:])
        return agg

    def cast(s, kind, b1, b2, v):
        if v is None: return None if kind in ('bitcast', 'ptrtoint', 'inttoptr') or b2 <= b1 else 0
        if isinstance(v, int):
            if kind == 'sext': return mask(sx(v, b1), b2)
            return v & ((1 << b2) - 1)
        if isinstance(v, SymTabPtr): raise Unsupported('cast of table pointer')
        if kind == 'sext': r = z3.SignExt(b2 - b1, v)
        elif kind == 'zext': r = z3.ZeroExt(b2 - b1, v)
        elif kind == 'trunc': r = z3.Extract(b2 - 1, 0, v)
        else:
            if b2 > b1: r = z3.ZeroExt(b2 - b1, v)
            elif b2 < b1: r = z3.Extract(b2 - 1, 0, v)
            else: return v
        return simp(r)

    def gep(s, fr, ins):
        base = s.val(fr, ins[2]); off = ins[3]
        if ins[4]:
            for (ixop, ib, sz) in ins[4]:
                ix = s.val(fr, ixop)
                if ix is None: raise Unsupported('gep on undef index')
                if isinstance(ix, int):
                    off += sx(ix, ib) * sz
                else:
                    # symbolic index
                    if isinstance(base, int) and len(ins[4]) == 1 and base < s.w.dyn_start:
                        w = s.w
                        k = bisect.bisect_right(w.sbases, base) - 1
                        if k >= 0:
                            ob = w.sbases[k]; o = w.sobjs[ob]
                            if o.ro and base - ob <= o.size and ob not in s.p.cow:
                                return SymTabPtr(ob, base - ob + ins[3], ix, sz)
                    v = s.p.concretize(ix, 'pointer offset')
                    off += sx(v, ib) * sz
        if isinstance(base, SymTabPtr):
            if off == 0: return base
            raise Unsupported('gep on table pointer')
        if base is None: raise Unsupported('gep on undef pointer')
        if not isinstance(base, int):
            base = s.p.concretize(base, 'pointer')
        return (base + off) & 0xffffffffffffffff

    # -- externals / intrinsics
    def external(s, name, args):
        n = name.strip('@"')
        p = s.p
        if n.startswith('llvm.'):
            return s.intrinsic(n, args)
        if n == 'llsym_fail':
            raise PathEnd('fail', args[0] if isinstance(args[0], int) else p.concretize(args[0]))
        if n == 'llsym_assume':
            c = args[0]
            if c is None: raise Unsupported('assume undef')
            if isinstance(c, int):
                if not (c & 1): raise PathEnd('infeasible', 'assume(false)')
                return None
            if c.size() > 1: c = z3.Extract(0, 0, c)
            c2 = simp(c)
            cond = zsimplify(as_cond(c2)) if not isinstance(c2, int) else z3.BoolVal(bool(c2 & 1))
            if z3.is_false(cond): raise PathEnd('infeasible', 'assume(false)')
            if z3.is_true(cond): return None
            cond, eqs, pure = p.gf2.rewrite(cond)
            if z3.is_false(cond): raise PathEnd('infeasible', 'assume(false)')
            if z3.is_true(cond): return None
            # an assumption is a forced decision: only the true side continues
            cid = cond.get_id()
            if p.decided.get(cid) is True: return None
            if p.decided.get(cid) is False: raise PathEnd('infeasible', 'assume contradicts path')
            if p.k >= len(p.prefix) and p.model is not None and z3.is_true(p.model.eval(cond, model_completion=True)):
                pass
            else:
                if not p.check(cond): raise PathEnd('infeasible', 'assume infeasible')
                p.model = p.solver.model()
            p.commit(cond, True, eqs, pure)
            return None
        if n == 'llsym_cover':
            p.covers.add(args[0] if isinstance(args[0], int) else -1); return None
        if n == 'llsym_note':
            p.notes.append((args[0], args[1])); return None
        if n == 'llsym_heap_total':
            return p.heap_total
        if n in ('bcmp', 'memcmp'):
            return s.memcmp(args[0], args[1], args[2], n)
        if '___rust_alloc' in n and 'realloc' not in n and 'dealloc' not in n and 'shim' not in n:
            if p.alloc_fail_above is not None:
                sz = args[0] if isinstance(args[0], int) else p.concretize(args[0], 'allocation size')
                if sz > p.alloc_fail_above: return 0          # allocation failure: null
            size = s.alloc_size(args[0])
            a = p.alloc(size, 'heap(%d)' % size)
            if 'zeroed' in n: p.store_cells(a, [0] * size)
            return a
        if '___rust_dealloc' in n:
            a = args[0]
            if not isinstance(a, int): raise Unsupported('symbolic dealloc')
            p.free(a); return None
        if '___rust_realloc' in n:
            old, oldsz, al, newsz = args
            if p.alloc_fail_above is not None:
                sz = newsz if isinstance(newsz, int) else p.concretize(newsz, 'allocation size')
                if sz > p.alloc_fail_above: return 0          # realloc failure: null, old block untouched
            newsz = s.alloc_size(newsz)
            oldsz = p.concretize(oldsz) if not isinstance(oldsz, int) else oldsz
            new = p.alloc(newsz, 'heap(%d)' % newsz)
            k = min(oldsz, newsz)
            p.store_cells(new, p.load_cells(old, k)); p.free(old); return new
        if 'no_alloc_shim' in n: return None
        if 'RawVechE8grow_one' in n:
            return s.grow_one_u8(args[0])
        if ('panicking' in n or 'slice_index_fail' in n or 'unwrap_failed' in n or 'expect_failed' in n
                or 'handle_error' in n or 'handle_alloc_error' in n or 'capacity_overflow' in n or 'alloc_error' in n
                or 'panic' in n or 'slice_start_index' in n or 'slice_end_index' in n or 'slice_index_order' in n
                or 'copy_from_slice' in n and 'len_mismatch' in n):
            raise PathEnd('panic', s.describe_panic(n, args))
        if 'core3fmt' in n or 'Formatter' in n:
            raise Unsupported('core::fmt reached (%s)' % n[:80])
        raise Unsupported('external function ' + n)

    def alloc_size(s, size):
        p = s.p
        pol = p.alloc_policy
        if pol == 'none':
            raise PathEnd('alloc', 'heap allocation on a path that must not allocate')
        if not isinstance(size, int):
            if pol is not None and pol[0] == 'max_total':
                lim = pol[1] - p.heap_total
                if p.decide(z3.UGT(size, z3.BitVecVal(max(lim, 0), size.size()))):
                    m = p.feasible_model()
                    raise PathEnd('alloc', 'heap request of %d bytes exceeds the input-proportional bound %d' % (m.eval(size, model_completion=True).as_long(), pol[1]))
            size = p.concretize(size, 'allocation size')
        p.allocs.append(size); p.heap_total += size
        if pol is not None and pol != 'none' and pol[0] == 'max_total' and p.heap_total > pol[1]:
            raise PathEnd('alloc', 'heap requests total %d bytes > input-proportional bound %d' % (p.heap_total, pol[1]))
        if size > (1 << 26): raise PathEnd('alloc', 'heap request of %d bytes (more than 64 MiB)' % size)
        return size

    def grow_one_u8(s, rv):
        # <RawVec<u8>>::grow_one, pre-instantiated in liballoc: {cap: usize @0, ptr @8}; new cap = max(2*cap, 8)
        p = s.p
        cap = p.load_int(rv, 8, 64); ptr = p.load_int(rv + 8, 8, 64)
        if not isinstance(cap, int): cap = p.concretize(cap)
        new = max(2 * cap, 8)
        size = s.alloc_size(new)
        a = p.alloc(size, 'heap(%d)' % size)
        if cap: p.store_cells(a, p.load_cells(ptr, cap)); p.free(ptr)
        p.store_int(rv, 8, new); p.store_int(rv + 8, 8, a)
        return None

    def describe_panic(s, n, args):
        msg = n
        m = re.search(r'panic_const_(\w+?)(?:$|E)', n)
        if m: msg = 'arithmetic ' + m.group(1)
        elif 'panic_bounds_check' in n: msg = 'index out of bounds'
        elif 'slice_index_fail' in n: msg = 'slice index out of range'
        elif 'handle_error' in n: msg = 'alloc::raw_vec::handle_error (capacity overflow / allocation failure)'
        elif 'panic_fmt' in n: msg = 'panic_fmt'
        elif 'unwrap_failed' in n: msg = 'unwrap/expect failed'
        loc = ''
        for a in reversed(args):
            if isinstance(a, int) and a >= 0x100000:
                try:
                    fp = s.p.load_int(a, 8, 64); fl = s.p.load_int(a + 8, 8, 64); line = s.p.load_int(a + 16, 4, 32)
                    if isinstance(fp, int) and isinstance(fl, int) and 0 < fl < 300 and isinstance(line, int):
                        cells = s.p.load_cells(fp, fl)
                        if all(isinstance(c, int) for c in cells):
                            loc = ' at %s:%d' % (bytes(cells).decode('latin1').rstrip('\0'), line); break
                except PathEnd:
                    pass
        return msg + loc

    def memcmp(s, a, b, n, name):
        p = s.p
        if a.__class__ is z3.BitVecRef: a = p.concretize(a, 'pointer')
        if b.__class__ is z3.BitVecRef: b = p.concretize(b, 'pointer')
        if not isinstance(n, int): n = p.concretize(n, 'memcmp length')
        if n == 0: return 0
        ca = p.load_cells(a, n); cb = p.load_cells(b, n)
        if all(isinstance(x, int) for x in ca) and all(isinstance(x, int) for x in cb):
            ba, bb = bytes(ca), bytes(cb)
            return 0 if ba == bb else (1 if ba > bb else mask(-1, 32))
        conds = []
        for x, y in zip(ca, cb):
            if x is None or y is None: raise Unsupported('memcmp on undef')
            if isinstance(x, int) and isinstance(y, int):
                if x != y: conds = [z3.BoolVal(False)]; break
                continue
            conds.append(bv(x, 8) == bv(y, 8))
        eq = zsimplify(z3.And(*conds)) if conds else z3.BoolVal(True)
        if z3.is_true(eq): return 0
        if name == 'memcmp':
            # ordering result: decide equality, then find the first differing byte
            if p.decide(eq): return 0
            for x, y in zip(ca, cb):
                c = icmp('eq', x, y, 8)
                if isinstance(c, int):
                    if c: continue
                elif p.decide(as_cond(c)): continue
                lt = icmp('ult', x, y, 8)
                if not isinstance(lt, int): lt = 1 if p.decide(as_cond(lt)) else 0
                return mask(-1, 32) if lt else 1
            return 0
        if z3.is_false(eq): return 1
        return z3.If(eq, z3.BitVecVal(0, 32), z3.BitVecVal(1, 32))

    def intrinsic(s, n, args):
        p = s.p
        if n.startswith(('llvm.lifetime', 'llvm.experimental.noalias', 'llvm.assume', 'llvm.dbg', 'llvm.prefetch', 'llvm.donothing')):
            return None
        if n.startswith(('llvm.memcpy', 'llvm.memmove', 'llvm.memset')):
            args = list(args)
            for i in (0, 1) if not n.startswith('llvm.memset') else (0,):
                if args[i].__class__ is z3.BitVecRef: args[i] = p.concretize(args[i], 'pointer')
        if n.startswith(('llvm.memcpy', 'llvm.memmove')):
            dstp, srcp, ln = args[0], args[1], args[2]
            if not isinstance(ln, int): ln = p.concretize(ln, 'memcpy length')
            if ln == 0: return None
            p.store_cells(dstp, list(p.load_cells(srcp, ln))); return None
        if n.startswith('llvm.memset'):
            ln = args[2]
            if not isinstance(ln, int): ln = p.concretize(ln, 'memset length')
            v = args[1]
            p.store_cells(args[0], [v] * ln); return None
        m = re.match(r'llvm\.bswap\.i(\d+)', n)
        if m:
            bits = int(m.group(1)); v = args[0]
            if v is None: return None
            if isinstance(v, int): return int.from_bytes(v.to_bytes(bits // 8, 'little'), 'big')
            return simp(z3.Concat(*[z3.Extract(8 * k + 7, 8 * k, v) for k in range(bits // 8)]))
        m = re.match(r'llvm\.bitreverse\.i(\d+)', n)
        if m:
            bits = int(m.group(1)); v = args[0]
            if v is None: return None
            if isinstance(v, int): return int(format(v, '0%db' % bits)[::-1], 2)
            return simp(z3.Concat(*[z3.Extract(k, k, v) for k in range(bits)]))
        m = re.match(r'llvm\.(u|s)(add|sub|mul)\.with\.overflow\.i(\d+)', n)
        if m:
            bits = int(m.group(3)); a, b = args; sg = m.group(1) == 's'; op = m.group(2)
            if a is None or b is None: return [None, None]
            if isinstance(a, int) and isinstance(b, int):
                if sg: a, b = sx(a, bits), sx(b, bits)
                full = {'add': a + b, 'sub': a - b, 'mul': a * b}[op]
                lo = mask(full, bits)
                ov = (sx(lo, bits) != full) if sg else (lo != full)
                return [lo, int(ov)]
            ext = z3.SignExt if sg else z3.ZeroExt
            A = ext(bits, bv(a, bits)); B = ext(bits, bv(b, bits))
            full = {'add': A + B, 'sub': A - B, 'mul': A * B}[op]
            lo = z3.Extract(bits - 1, 0, full)
            if sg: ov = z3.SignExt(bits, lo) != full
            else: ov = z3.Extract(2 * bits - 1, bits, full) != 0
            ov = zsimplify(ov)
            ovv = 1 if z3.is_true(ov) else 0 if z3.is_false(ov) else z3.If(ov, ONE1, ZERO1)
            return [simp(lo), ovv]
        m = re.match(r'llvm\.(umax|umin|smax|smin)\.i(\d+)', n)
        if m:
            a, b = args; bits = int(m.group(2)); k = m.group(1)
            if a is None or b is None: return None
            if isinstance(a, int) and isinstance(b, int):
                if k[0] == 's':
                    r = max(sx(a, bits), sx(b, bits)) if k == 'smax' else min(sx(a, bits), sx(b, bits)); return mask(r, bits)
                return max(a, b) if k == 'umax' else min(a, b)
            A = bv(a, bits); B = bv(b, bits)
            c = {'umax': z3.UGT(A, B), 'umin': z3.ULT(A, B), 'smax': A > B, 'smin': A < B}[k]
            return simp(z3.If(c, A, B))
        m = re.match(r'llvm\.(u|s)(add|sub)\.sat\.i(\d+)', n)
        if m:
            bits = int(m.group(3)); a, b = args
            if m.group(1) == 'u' and isinstance(a, int) and isinstance(b, int):
                if m.group(2) == 'add': return min(a + b, (1 << bits) - 1)
                return max(a - b, 0)
            if m.group(1) == 'u':
                A = bv(a, bits); B = bv(b, bits)
                if m.group(2) == 'add':
                    r = A + B; return simp(z3.If(z3.ULT(r, A), z3.BitVecVal((1 << bits) - 1, bits), r))
                return simp(z3.If(z3.ULT(A, B), z3.BitVecVal(0, bits), A - B))
            raise Unsupported(n)
        m = re.match(r'llvm\.(ctlz|cttz|ctpop)\.i(\d+)', n)
        if m:
            bits = int(m.group(2)); v = args[0]
            if not isinstance(v, int): v = p.concretize(v, n)
            if m.group(1) == 'ctpop': return bin(v).count('1')
            if v == 0: return bits
            if m.group(1) == 'ctlz': return bits - v.bit_length()
            return (v & -v).bit_length() - 1
        m = re.match(r'llvm\.fsh(l|r)\.i(\d+)', n)
        if m:
            bits = int(m.group(2)); a, b, c = args
            if all(isinstance(x, int) for x in args):
                c %= bits; full = (a << bits) | b
                if m.group(1) == 'l': return mask(full >> (bits - c), bits) if c else a
                return mask(full >> c, bits)
            A = z3.Concat(bv(a, bits), bv(b, bits)); C = z3.ZeroExt(bits, z3.URem(bv(c, bits), z3.BitVecVal(bits, bits)))
            if m.group(1) == 'l': r = z3.Extract(2 * bits - 1, bits, A << C)
            else: r = z3.Extract(bits - 1, 0, z3.LShR(A, C))
            return simp(r)
        m = re.match(r'llvm\.abs\.i(\d+)', n)
        if m:
            bits = int(m.group(1)); v = args[0]
            if isinstance(v, int): return mask(abs(sx(v, bits)), bits)
            return simp(z3.If(v < 0, -v, v))
        if n.startswith('llvm.expect'): return args[0]
        if n.startswith('llvm.is.constant'): return 0
        if n.startswith('llvm.trap') or n.startswith('llvm.ubsantrap') or n.startswith('llvm.debugtrap'):
            raise PathEnd('panic', 'abort (' + n + ')')
        raise Unsupported('intrinsic ' + n)
