//! One `push_byte` / `finalize` / `reset` from an ARBITRARY decoder state satisfying the
//! representation invariant INV (DESIGN.md §8.1): STEP lemmas for C02, C05, C08, C14, C17.
use crate::nd::{Nd, Out, Replay};
use crate::spec::{crc_after_start, crc_fin, crc_reg, crc_upd, spec_match, START};
use sml_rs::transport::decode_verif::DecoderState;
use sml_rs::transport::{DecodeErr, Decoder};
use sml_rs::util::{ArrayBuf, Buffer};

pub const T_LOOK: u8 = 0;
pub const T_NORMAL: u8 = 1;
pub const T_ESCCH: u8 = 2;
pub const T_ESCPAY: u8 = 3;
pub const T_DONE: u8 = 4;

/// upper bound assumed for `raw_msg_len` in a pre-state (2^62): "fewer than 2^62 bytes between two boundaries"
pub const RAW_MAX: usize = usize::MAX / 4;

/// Owned copy of a `push_byte` result.
#[derive(Clone, Copy, PartialEq, Eq, Debug)]
pub enum R {
    Nothing,
    Delivered(usize),
    Discarded(usize),
    InvalidEsc([u8; 4]),
    Oom,
    InvalidMsg {
        read: u16,
        calc: u16,
        misaligned: bool,
        pad: u8,
        bad_pad: bool,
    },
}

pub fn own(r: Result<Option<&[u8]>, DecodeErr>) -> R {
    match r {
        Ok(None) => R::Nothing,
        Ok(Some(m)) => R::Delivered(m.len()),
        Err(DecodeErr::DiscardedBytes(n)) => R::Discarded(n),
        Err(DecodeErr::InvalidEsc(p)) => R::InvalidEsc(p),
        Err(DecodeErr::OutOfMemory) => R::Oom,
        Err(DecodeErr::InvalidMessage {
            checksum_mismatch,
            end_esc_misaligned,
            num_padding_bytes,
            invalid_padding_bytes,
        }) => R::InvalidMsg {
            read: checksum_mismatch.0,
            calc: checksum_mismatch.1,
            misaligned: end_esc_misaligned,
            pad: num_padding_bytes,
            bad_pad: invalid_padding_bytes,
        },
    }
}

pub fn any_state<S: Nd>(nd: &mut S, tag: u8) -> DecoderState {
    DecoderState {
        tag,
        num_discarded_bytes: nd.u64(),
        num_init_seq_bytes: nd.u8(),
        esc_chars: nd.u8(),
        step: nd.u8(),
        payload: nd.arr(),
        raw_msg_len: nd.usize(),
        zero_cache: nd.u8(),
        crc: nd.u16(),
    }
}

/// Representation invariant. `bl` = buffer length.
pub fn inv(s: &DecoderState, bl: usize, rmax: usize) -> bool {
    let raw = s.raw_msg_len;
    let zc = s.zero_cache as usize;
    if !(s.zero_cache <= 4 && raw <= rmax) {
        return false;
    }
    match s.tag {
        T_LOOK => {
            s.num_init_seq_bytes <= 7
                && s.num_discarded_bytes <= rmax as u64
                && raw as u64 == s.num_discarded_bytes + s.num_init_seq_bytes as u64
                && zc == 0
                && bl == 0
        }
        T_NORMAL => raw >= 8 && bl + zc <= raw - 8,
        T_ESCCH => {
            s.esc_chars >= 1
                && s.esc_chars <= 3
                && raw >= 8 + s.esc_chars as usize
                && bl + zc + s.esc_chars as usize <= raw - 8
        }
        T_ESCPAY => {
            s.step <= 3 && raw >= 12 + s.step as usize && bl + zc <= raw - 12 - s.step as usize
        }
        T_DONE => true,
        _ => false,
    }
}

/// Fields that are meaningless for a tag are normalised so that states can be compared.
pub fn norm(mut s: DecoderState) -> DecoderState {
    if s.tag != T_LOOK {
        s.num_discarded_bytes = 0;
        s.num_init_seq_bytes = 0;
    }
    if s.tag != T_ESCCH {
        s.esc_chars = 0;
    }
    if s.tag != T_ESCPAY {
        s.step = 0;
        s.payload = [0; 4];
    } else {
        let mut i = 0;
        while i < 4 {
            if i >= s.step as usize {
                s.payload[i] = 0;
            }
            i += 1;
        }
    }
    s
}

/// "Between transmissions" state as produced by the real constructor.
pub fn is_fresh(s: &DecoderState, bl: usize) -> bool {
    s.tag == T_LOOK
        && s.num_discarded_bytes == 0
        && s.num_init_seq_bytes == 0
        && s.raw_msg_len == 0
        && s.zero_cache == 0
        && bl == 0
}

pub struct Pre<const N: usize> {
    pub s: DecoderState,
    pub raw: [u8; N],
    pub bl: usize,
    pub b: u8,
}

/// Draws the nondeterministic pre-state; the caller must `assume!(inv(..))`.
pub fn draw<const N: usize, S: Nd>(nd: &mut S, tag: u8) -> Pre<N> {
    let s = any_state(nd, tag);
    let raw: [u8; N] = nd.arr();
    let bl = nd.usize();
    let b = nd.u8();
    Pre { s, raw, bl, b }
}

pub fn build<const N: usize>(p: &Pre<N>) -> Decoder<ArrayBuf<N>> {
    Decoder::verif_from_state(ArrayBuf::<N>::verif_from_raw(p.raw, p.bl), &p.s)
}

/// bytes since the last boundary before this byte
pub fn since_boundary(s: &DecoderState) -> usize {
    if s.tag == T_DONE {
        0
    } else {
        s.raw_msg_len
    }
}

// ------------------------------------------------------------------------------------------------
// C05: totality + INV preservation (the induction that makes every other STEP lemma unbounded)
// ------------------------------------------------------------------------------------------------
pub fn h_c05_step<const N: usize, S: Nd>(nd: &mut S, tag: u8) -> Out {
    let p: Pre<N> = draw(nd, tag);
    assume!(p.bl <= N);
    assume!(inv(&p.s, p.bl, RAW_MAX));
    let mut d = build(&p);
    let r = own(d.push_byte(p.b));
    let s2 = d.verif_state();
    let bl2 = d.verif_buf().len();
    check!(inv(&s2, bl2, RAW_MAX + 1), "C05: representation invariant not preserved by push_byte (counter overflow / inconsistent state)");
    cover!(matches!(r, R::Delivered(_)), "witness: payload delivered");
    cover!(matches!(r, R::Oom), "witness: out of memory");
    cover!(matches!(r, R::Nothing), "witness: needs more input");
    // "the same object remains usable": the post-state satisfies INV again, and from every INV
    // state every call is total (this very lemma) — induction, no second call needed here.
    Out::Pass
}

/// finalize() and reset() from any state: total; afterwards indistinguishable from new (C14);
/// the reported count is exactly the bytes since the last boundary (C17).
pub fn h_fin_reset<const N: usize, S: Nd>(nd: &mut S) -> Out {
    let tag = nd.u8();
    assume!(tag <= 4);
    let p: Pre<N> = draw(nd, tag);
    assume!(p.bl <= N);
    assume!(inv(&p.s, p.bl, RAW_MAX));
    let which = nd.bool();
    let mut d = build(&p);
    let since = since_boundary(&p.s);
    if which {
        let f = d.finalize();
        match f {
            None => {
                check!(since == 0, "C17: finalize() dropped pending bytes without reporting them");
            }
            Some(DecodeErr::DiscardedBytes(n)) => {
                check!(n == since, "C17: finalize() count differs from the bytes since the last boundary");
                check!(n > 0, "C17: finalize() reported zero discarded bytes");
            }
            Some(_) => {
                check!(false, "C05: finalize() returned an unexpected error kind");
            }
        }
    } else {
        let n = d.reset();
        check!(n == since, "C17: reset() count differs from the bytes since the last boundary");
    }
    let s2 = d.verif_state();
    let bl2 = d.verif_buf().len();
    check!(is_fresh(&s2, bl2), "C14: state after finalize()/reset() differs from a new decoder");
    let fresh = Decoder::<ArrayBuf<N>>::new();
    let sf = fresh.verif_state();
    check!(is_fresh(&sf, fresh.verif_buf().len()), "C14: constructor state is not the idle state");
    cover!(which && since > 0, "witness: finalize with pending bytes");
    Out::Pass
}

// ------------------------------------------------------------------------------------------------
// C17: conservation law per step
// ------------------------------------------------------------------------------------------------
pub fn h_c17_step<const N: usize, S: Nd>(nd: &mut S, tag: u8) -> Out {
    let p: Pre<N> = draw(nd, tag);
    assume!(p.bl <= N);
    assume!(inv(&p.s, p.bl, RAW_MAX));
    let since = since_boundary(&p.s);
    let mut d = build(&p);
    let r = own(d.push_byte(p.b));
    let s2 = d.verif_state();
    let bl2 = d.verif_buf().len();
    match r {
        R::Discarded(n) => {
            // a start sequence was completed by this byte: everything before it is reported
            check!(n == since + 1 - 8, "C17/C08: DiscardedBytes(n) differs from the bytes between the last boundary and the start sequence");
            check!(n > 0, "C17: DiscardedBytes(0) reported");
            check!(s2.tag == T_NORMAL && s2.raw_msg_len == 8, "C17: after a start sequence exactly its 8 bytes are in flight");
            check!(p.s.tag == T_LOOK || p.s.tag == T_ESCPAY || p.s.tag == T_DONE, "C17: DiscardedBytes from an unexpected state");
        }
        R::Delivered(_) => {
            check!(s2.tag == T_DONE, "C17: delivered frame does not end at a boundary");
            let n = d.reset();
            check!(n == 0, "C17: reset() after a delivered frame reports bytes already accounted for");
        }
        R::InvalidEsc(_) | R::Oom | R::InvalidMsg { .. } => {
            check!(is_fresh(&s2, bl2), "C17: rejected frame does not end at a boundary (bytes would be counted twice or lost)");
        }
        R::Nothing => {
            if s2.tag == T_NORMAL && (p.s.tag == T_LOOK || p.s.tag == T_DONE) {
                // start sequence completed with no noise before it
                check!(since + 1 == 8 && s2.raw_msg_len == 8, "C17: start sequence without DiscardedBytes although noise preceded it");
            } else {
                check!(s2.raw_msg_len == since + 1, "C17: byte not accounted for exactly once");
            }
        }
    }
    cover!(matches!(r, R::Discarded(_)), "witness: discarded bytes reported");
    Out::Pass
}

// ------------------------------------------------------------------------------------------------
// C08: start-sequence matcher = longest-prefix matcher (unbounded noise length)
// ------------------------------------------------------------------------------------------------
pub fn h_c08_matcher<const N: usize, S: Nd>(nd: &mut S) -> Out {
    let p: Pre<N> = draw(nd, T_LOOK);
    assume!(p.bl <= N);
    assume!(inv(&p.s, p.bl, RAW_MAX));
    let d0 = p.s.num_discarded_bytes;
    let k0 = p.s.num_init_seq_bytes;
    let mut d = build(&p);
    let r = own(d.push_byte(p.b));
    let s2 = d.verif_state();
    let k1 = spec_match(k0, p.b);
    let total = d0 + k0 as u64 + 1;
    let d1 = total - k1 as u64;
    if k1 == 8 {
        check!(s2.tag == T_NORMAL, "C08: start sequence not recognised (a frame after this noise would be lost)");
        if d1 > 0 {
            check!(r == R::Discarded(d1 as usize), "C08: noise length not reported exactly when the start sequence is found");
        } else {
            check!(r == R::Nothing, "C08: spurious report for a start sequence without noise");
        }
    } else {
        check!(r == R::Nothing, "C08: matcher reported something before the start sequence is complete");
        check!(s2.tag == T_LOOK, "C08: matcher left the search state without a complete start sequence");
        check!(s2.num_init_seq_bytes == k1, "C08: matcher forgets a partial start sequence (noise ending in 0x1b / partial start)");
        check!(s2.num_discarded_bytes == d1, "C08: noise count wrong");
    }
    cover!(k1 == 8 && d1 > 0, "witness: start found after noise");
    cover!(k0 >= 4 && p.b == 0x1b, "witness: 0x1b inside a partial start sequence");
    Out::Pass
}

// ------------------------------------------------------------------------------------------------
// C14: equivalence to a new decoder at every boundary
// ------------------------------------------------------------------------------------------------
/// Rejecting errors leave the idle state (crc excepted — shown irrelevant by `h_c14_look_crc`).
pub fn h_c14_step<const N: usize, S: Nd>(nd: &mut S, tag: u8) -> Out {
    let p: Pre<N> = draw(nd, tag);
    assume!(p.bl <= N);
    assume!(inv(&p.s, p.bl, RAW_MAX));
    let mut d = build(&p);
    let r = own(d.push_byte(p.b));
    let s2 = d.verif_state();
    let bl2 = d.verif_buf().len();
    match r {
        R::Oom => {
            check!(is_fresh(&s2, bl2), "C14/C16: state after out-of-memory differs from a new decoder (not immediately ready for the next frame)");
        }
        R::InvalidEsc(_) | R::InvalidMsg { .. } => {
            check!(is_fresh(&s2, bl2), "C14: state after an error differs from a new decoder (withheld zeros / counters / buffer leak)");
        }
        R::Delivered(_) => {
            check!(s2.tag == T_DONE, "C14: delivered frame must leave the decoder in Done");
        }
        R::Discarded(_) => {
            // just consumed a start sequence: the unique in-frame start state
            check!(s2.tag == T_NORMAL && s2.raw_msg_len == 8 && s2.zero_cache == 0 && bl2 == 0, "C14: state after a (re)start sequence carries data from before it");
            check!(s2.crc == crc_fin(crc_after_start()), "C14: checksum state after a (re)start sequence is not CRC(start sequence)");
        }
        R::Nothing => {
            if s2.tag == T_NORMAL && p.s.tag != T_NORMAL && p.s.tag != T_ESCCH && p.s.tag != T_ESCPAY {
                check!(s2.raw_msg_len == 8 && s2.zero_cache == 0 && bl2 == 0, "C14: frame start state carries data from before it");
                check!(s2.crc == crc_fin(crc_after_start()), "C14: checksum state at frame start is not CRC(start sequence)");
            }
        }
    }
    cover!(matches!(r, R::InvalidMsg { .. }) || matches!(r, R::InvalidEsc(_)), "witness: rejecting error");
    Out::Pass
}

/// In the search state the checksum register is dead: two decoders that differ only in it
/// produce the same result and equivalent post-states.
pub fn h_c14_look_crc<const N: usize, S: Nd>(nd: &mut S) -> Out {
    let p: Pre<N> = draw(nd, T_LOOK);
    assume!(p.bl <= N);
    assume!(inv(&p.s, p.bl, RAW_MAX));
    let mut q = Pre::<N> { s: p.s, raw: p.raw, bl: p.bl, b: p.b };
    q.s.crc = nd.u16();
    let mut d1 = build(&p);
    let mut d2 = build(&q);
    let r1 = own(d1.push_byte(p.b));
    let r2 = own(d2.push_byte(p.b));
    check!(r1 == r2, "C14: result in the search state depends on a stale checksum");
    let mut a = d1.verif_state();
    let mut b = d2.verif_state();
    if a.tag == T_LOOK {
        a.crc = 0;
        b.crc = 0;
    }
    check!(norm(a) == norm(b), "C14: post-state in the search state depends on a stale checksum");
    Out::Pass
}

/// From `Done` (arbitrary stale raw_msg_len / crc / zero_cache / buffer) the next byte behaves
/// exactly as on a new decoder.
pub fn h_c14_done<const N: usize, S: Nd>(nd: &mut S) -> Out {
    let p: Pre<N> = draw(nd, T_DONE);
    assume!(p.bl <= N);
    assume!(inv(&p.s, p.bl, RAW_MAX));
    let mut d1 = build(&p);
    let mut d2 = Decoder::<ArrayBuf<N>>::new();
    let r1 = own(d1.push_byte(p.b));
    let r2 = own(d2.push_byte(p.b));
    check!(r1 == r2, "C14: first byte after a delivered frame is treated differently from a new decoder");
    let mut a = d1.verif_state();
    let mut b = d2.verif_state();
    check!(a.tag == T_LOOK && b.tag == T_LOOK, "C14: one byte cannot complete a start sequence");
    a.crc = 0;
    b.crc = 0;
    check!(norm(a) == norm(b), "C14: state after a delivered frame + 1 byte differs from new decoder + 1 byte");
    check!(d1.verif_buf().len() == 0 && d2.verif_buf().len() == 0, "C14: buffer not cleared after a delivered frame");
    Out::Pass
}

// ------------------------------------------------------------------------------------------------
// C02: accept guard, checksum tracking and payload tracking
// ------------------------------------------------------------------------------------------------
/// checksum register covering every raw byte consumed since the start sequence
/// (bytes parked in the escape payload are not yet in `crc`).
pub fn eff_crc(s: &DecoderState) -> u16 {
    let mut r = crc_reg(s.crc);
    if s.tag == T_ESCPAY {
        let mut i = 0;
        while i < 4 {
            if i < s.step as usize {
                r = crc_upd(r, s.payload[i]);
            }
            i += 1;
        }
    }
    r
}

/// A payload is delivered only when every guard of the end sequence holds, and then it is
/// exactly buffer ‖ (withheld zeros − pad count).
pub fn h_c02_accept<const N: usize, S: Nd>(nd: &mut S, tag: u8) -> Out {
    let p: Pre<N> = draw(nd, tag);
    assume!(p.bl <= N);
    assume!(inv(&p.s, p.bl, RAW_MAX));
    let mut d = build(&p);
    let r = own(d.push_byte(p.b));
    let s2 = d.verif_state();
    let post: &[u8] = d.verif_buf();
    let bl2 = post.len();
    let s = &p.s;
    // guards evaluated from the pre-state by the Transport v1 rule
    let at_end = s.tag == T_ESCPAY && s.step == 3 && s.payload[0] == 0x1a;
    let pad = s.payload[1];
    let read = u16::from_le_bytes([s.payload[2], p.b]);
    let calc = crc_fin(crc_upd(crc_upd(crc_reg(s.crc), s.payload[0]), s.payload[1]));
    let aligned = (s.raw_msg_len + 1) % 4 == 0;
    let guards = at_end && pad <= 3 && pad <= s.zero_cache && aligned && read == calc;
    if let R::Delivered(l) = r {
        check!(at_end, "C02: payload delivered although no end sequence was completed");
        check!(read == calc, "C02: payload delivered with a checksum mismatch");
        check!(aligned, "C02: payload delivered for a misaligned end sequence");
        check!(pad <= 3, "C02: payload delivered with a pad count above 3");
        check!(pad <= s.zero_cache, "C02: payload delivered although the pad bytes are not zeros");
        let keep = (s.zero_cache - pad) as usize;
        check!(l == p.bl + keep && bl2 == l, "C02: delivered length is not data ‖ (withheld zeros − pad)");
        let mut i = 0;
        while i < N {
            if i < p.bl {
                check!(post[i] == p.raw[i], "C02: delivered payload altered");
            } else if i < l {
                check!(post[i] == 0, "C02: withheld zeros not delivered as zeros");
            }
            i += 1;
        }
        check!(s2.tag == T_DONE, "C02: delivered but not Done");
    }
    cover!(matches!(r, R::Delivered(_)), "witness: payload delivered");
    cover!(at_end && !guards, "witness: end sequence rejected");
    Out::Pass
}

/// C01 (completeness of the end-sequence guard): an end sequence whose checksum, alignment and
/// pad count are right is accepted; only lack of buffer room may prevent delivery.
pub fn h_c01_accept<const N: usize, S: Nd>(nd: &mut S) -> Out {
    let p: Pre<N> = draw(nd, T_ESCPAY);
    assume!(p.bl <= N);
    assume!(inv(&p.s, p.bl, RAW_MAX));
    let mut d = build(&p);
    let r = own(d.push_byte(p.b));
    let s = &p.s;
    let at_end = s.tag == T_ESCPAY && s.step == 3 && s.payload[0] == 0x1a;
    let pad = s.payload[1];
    let read = u16::from_le_bytes([s.payload[2], p.b]);
    let calc = crc_fin(crc_upd(crc_upd(crc_reg(s.crc), s.payload[0]), s.payload[1]));
    let aligned = (s.raw_msg_len + 1) % 4 == 0;
    let guards = at_end && pad <= 3 && pad <= s.zero_cache && aligned && read == calc;
    if guards {
        let keep = (s.zero_cache - pad) as usize;
        if p.bl + keep <= N {
            check!(r == R::Delivered(p.bl + keep), "C01: intact canonical end sequence not accepted");
        } else {
            check!(r == R::Oom, "C01: frame exceeding the buffer must be reported as out of memory");
        }
    }
    cover!(guards && matches!(r, R::Delivered(_)), "witness: accepted");
    Out::Pass
}

/// In-frame, non-boundary steps: the checksum register tracks every raw byte, and the logical
/// payload (buffer ‖ withheld zeros) only grows by exactly the decoded bytes.
pub fn h_c02_track<const N: usize, S: Nd>(nd: &mut S, tag: u8) -> Out {
    let p: Pre<N> = draw(nd, tag);
    assume!(p.bl <= N);
    assume!(inv(&p.s, p.bl, RAW_MAX));
    assume!(tag == T_NORMAL || tag == T_ESCCH || tag == T_ESCPAY);
    let mut d = build(&p);
    let r = own(d.push_byte(p.b));
    let s2 = d.verif_state();
    let post: &[u8] = d.verif_buf();
    let bl2 = post.len();
    let s = &p.s;
    if r == R::Nothing && (s2.tag == T_NORMAL || s2.tag == T_ESCCH || s2.tag == T_ESCPAY) {
        // (1) checksum covers every consumed byte
        check!(eff_crc(&s2) == crc_upd(eff_crc(s), p.b), "C02: running checksum does not cover exactly the consumed bytes");
        // (2) logical payload: expected appended bytes
        let mut app = [0u8; 5];
        let mut na = 0usize;
        match s.tag {
            T_NORMAL => {
                if p.b != 0x1b {
                    app[0] = p.b;
                    na = 1;
                }
            }
            T_ESCCH => {
                if p.b != 0x1b {
                    let mut i = 0;
                    while i < 3 {
                        if i < s.esc_chars as usize {
                            app[i] = 0x1b;
                        }
                        i += 1;
                    }
                    app[s.esc_chars as usize] = p.b;
                    na = s.esc_chars as usize + 1;
                }
            }
            _ => {
                if s.step == 3 {
                    let pl = [s.payload[0], s.payload[1], s.payload[2], p.b];
                    if pl == [0x1b; 4] {
                        app = [0x1b, 0x1b, 0x1b, 0x1b, 0];
                        na = 4;
                        check!(s2.tag == T_NORMAL, "C02: literal escape must return to normal parsing");
                    } else {
                        // re-alignment: a (1..3) leading 0x1b bytes belong to the payload
                        let a = (4 - ((s.raw_msg_len + 1) % 4)) % 4;
                        check!(a > 0 && s2.tag == T_ESCPAY && s2.step as usize == 4 - a, "C02: escape payload continued without a valid re-alignment");
                        let mut i = 0;
                        while i < 3 {
                            if i < a {
                                check!(pl[i] == 0x1b, "C02: re-alignment over non-0x1b bytes");
                                app[i] = 0x1b;
                            }
                            i += 1;
                        }
                        check!(pl[a] == 0x1a, "C02: re-alignment without an end marker at the aligned offset");
                        na = a;
                        let mut j = 0;
                        while j < 4 {
                            if j < 4 - a {
                                check!(s2.payload[j] == pl[j + a], "C02: re-aligned escape payload altered");
                            }
                            j += 1;
                        }
                    }
                } else {
                    check!(s2.tag == T_ESCPAY && s2.step == s.step + 1 && s2.payload[s.step as usize] == p.b, "C02: escape payload byte not recorded");
                }
            }
        }
        // logical payload before / after
        let l1 = p.bl + s.zero_cache as usize;
        let l2 = bl2 + s2.zero_cache as usize;
        check!(l2 == l1 + na, "C02: decoded payload length changed by a wrong amount");
        let mut i = 0;
        while i < N + 4 {
            if i < l2 {
                let got = if i < bl2 { post[i] } else { 0 };
                let want = if i < l1 {
                    if i < p.bl { p.raw[i] } else { 0 }
                } else {
                    app[i - l1]
                };
                check!(got == want, "C02: decoded payload bytes differ from the transmitted ones");
            }
            i += 1;
        }
    }
    cover!(r == R::Nothing && s.tag == T_ESCPAY && s.step == 3 && s2.tag == T_ESCPAY, "witness: re-alignment");
    cover!(r == R::Nothing && s.tag == T_ESCPAY && s.step == 3 && s2.tag == T_NORMAL, "witness: literal escape");
    Out::Pass
}


/// C14: `Decoder::from_buf` on ANY buffer (arbitrary stale contents and length) is a new decoder with an empty buffer.
pub fn h_c14_from_buf<const N: usize, S: Nd>(nd: &mut S) -> Out {
    let raw: [u8; N] = nd.arr();
    let n = nd.usize();
    assume!(n <= N);
    let d = Decoder::from_buf(ArrayBuf::<N>::verif_from_raw(raw, n));
    let s = d.verif_state();
    check!(is_fresh(&s, d.verif_buf().len()), "C14: Decoder::from_buf does not start like a new decoder (stale buffer contents kept?)");
    let f = Decoder::<ArrayBuf<N>>::new().verif_state();
    check!(norm(s) == norm(f), "C14: Decoder::from_buf state differs from Decoder::new");
    cover!(n > 0, "witness: non-empty buffer handed to from_buf");
    Out::Pass
}
pub fn h_c14_from_buf4<S: Nd>(nd: &mut S) -> Out { h_c14_from_buf::<4, S>(nd) }
proof!(c14_from_buf4, 10, h_c14_from_buf4);

// ------------------------------------------------------------------------------------------------
// instantiations
// ------------------------------------------------------------------------------------------------
macro_rules! per_tag {
    ($h:ident, $n:expr, $u:expr, $($name:ident = $tag:expr),+) => {
        $(
            pub fn $name<S: Nd>(nd: &mut S) -> Out { $h::<$n, S>(nd, $tag) }
        )+
    };
}
per_tag!(h_c05_step, 4, 10, h_c05_step4_t0 = 0, h_c05_step4_t1 = 1, h_c05_step4_t2 = 2, h_c05_step4_t3 = 3, h_c05_step4_t4 = 4);
per_tag!(h_c05_step, 0, 10, h_c05_step0_t0 = 0, h_c05_step0_t1 = 1, h_c05_step0_t2 = 2, h_c05_step0_t3 = 3, h_c05_step0_t4 = 4);
per_tag!(h_c05_step, 1, 10, h_c05_step1_t0 = 0, h_c05_step1_t1 = 1, h_c05_step1_t2 = 2, h_c05_step1_t3 = 3, h_c05_step1_t4 = 4);
per_tag!(h_c17_step, 4, 10, h_c17_step4_t0 = 0, h_c17_step4_t1 = 1, h_c17_step4_t2 = 2, h_c17_step4_t3 = 3, h_c17_step4_t4 = 4);
per_tag!(h_c14_step, 4, 10, h_c14_step4_t0 = 0, h_c14_step4_t1 = 1, h_c14_step4_t2 = 2, h_c14_step4_t3 = 3, h_c14_step4_t4 = 4);
per_tag!(h_c02_accept, 4, 10, h_c02_accept4_t0 = 0, h_c02_accept4_t1 = 1, h_c02_accept4_t2 = 2, h_c02_accept4_t3 = 3, h_c02_accept4_t4 = 4);
per_tag!(h_c02_track, 4, 10, h_c02_track4_t1 = 1, h_c02_track4_t2 = 2, h_c02_track4_t3 = 3);

pub fn h_c01_accept4<S: Nd>(nd: &mut S) -> Out { h_c01_accept::<4, S>(nd) }
pub fn h_fin_reset4<S: Nd>(nd: &mut S) -> Out { h_fin_reset::<4, S>(nd) }
pub fn h_fin_reset0<S: Nd>(nd: &mut S) -> Out { h_fin_reset::<0, S>(nd) }
pub fn h_c08_matcher4<S: Nd>(nd: &mut S) -> Out { h_c08_matcher::<4, S>(nd) }
pub fn h_c14_look_crc4<S: Nd>(nd: &mut S) -> Out { h_c14_look_crc::<4, S>(nd) }
pub fn h_c14_done4<S: Nd>(nd: &mut S) -> Out { h_c14_done::<4, S>(nd) }

proof!(c05_step4_t0, 10, h_c05_step4_t0);
proof!(c05_step4_t1, 10, h_c05_step4_t1);
proof!(c05_step4_t2, 10, h_c05_step4_t2);
proof!(c05_step4_t3, 10, h_c05_step4_t3);
proof!(c05_step4_t4, 10, h_c05_step4_t4);
proof!(c05_step0_t0, 10, h_c05_step0_t0);
proof!(c05_step0_t1, 10, h_c05_step0_t1);
proof!(c05_step0_t2, 10, h_c05_step0_t2);
proof!(c05_step0_t3, 10, h_c05_step0_t3);
proof!(c05_step0_t4, 10, h_c05_step0_t4);
proof!(c05_step1_t0, 10, h_c05_step1_t0);
proof!(c05_step1_t1, 10, h_c05_step1_t1);
proof!(c05_step1_t2, 10, h_c05_step1_t2);
proof!(c05_step1_t3, 10, h_c05_step1_t3);
proof!(c05_step1_t4, 10, h_c05_step1_t4);
proof!(c17_step4_t0, 10, h_c17_step4_t0);
proof!(c17_step4_t1, 10, h_c17_step4_t1);
proof!(c17_step4_t2, 10, h_c17_step4_t2);
proof!(c17_step4_t3, 10, h_c17_step4_t3);
proof!(c17_step4_t4, 10, h_c17_step4_t4);
proof!(c14_step4_t0, 10, h_c14_step4_t0);
proof!(c14_step4_t1, 10, h_c14_step4_t1);
proof!(c14_step4_t2, 10, h_c14_step4_t2);
proof!(c14_step4_t3, 10, h_c14_step4_t3);
proof!(c14_step4_t4, 10, h_c14_step4_t4);
proof!(c02_accept4_t0, 10, h_c02_accept4_t0);
proof!(c02_accept4_t1, 10, h_c02_accept4_t1);
proof!(c02_accept4_t2, 10, h_c02_accept4_t2);
proof!(c02_accept4_t3, 10, h_c02_accept4_t3);
proof!(c02_accept4_t4, 10, h_c02_accept4_t4);
proof!(c02_track4_t1, 10, h_c02_track4_t1);
proof!(c02_track4_t2, 10, h_c02_track4_t2);
proof!(c02_track4_t3, 10, h_c02_track4_t3);
proof!(c01_accept4, 10, h_c01_accept4);
proof!(fin_reset4, 10, h_fin_reset4);
proof!(fin_reset0, 10, h_fin_reset0);
proof!(c08_matcher4, 10, h_c08_matcher4);
proof!(c14_look_crc4, 10, h_c14_look_crc4);
proof!(c14_done4, 10, h_c14_done4);

pub fn register(v: &mut Vec<(&'static str, fn(&mut Replay) -> Out)>) {
    macro_rules! reg { ($($n:ident = $f:ident),+) => { $( v.push((stringify!($n), $f::<Replay>)); )+ } }
    reg!(c05_step4_t0 = h_c05_step4_t0, c05_step4_t1 = h_c05_step4_t1, c05_step4_t2 = h_c05_step4_t2, c05_step4_t3 = h_c05_step4_t3, c05_step4_t4 = h_c05_step4_t4);
    reg!(c05_step0_t0 = h_c05_step0_t0, c05_step0_t1 = h_c05_step0_t1, c05_step0_t2 = h_c05_step0_t2, c05_step0_t3 = h_c05_step0_t3, c05_step0_t4 = h_c05_step0_t4);
    reg!(c05_step1_t0 = h_c05_step1_t0, c05_step1_t1 = h_c05_step1_t1, c05_step1_t2 = h_c05_step1_t2, c05_step1_t3 = h_c05_step1_t3, c05_step1_t4 = h_c05_step1_t4);
    reg!(c17_step4_t0 = h_c17_step4_t0, c17_step4_t1 = h_c17_step4_t1, c17_step4_t2 = h_c17_step4_t2, c17_step4_t3 = h_c17_step4_t3, c17_step4_t4 = h_c17_step4_t4);
    reg!(c14_step4_t0 = h_c14_step4_t0, c14_step4_t1 = h_c14_step4_t1, c14_step4_t2 = h_c14_step4_t2, c14_step4_t3 = h_c14_step4_t3, c14_step4_t4 = h_c14_step4_t4);
    reg!(c02_accept4_t0 = h_c02_accept4_t0, c02_accept4_t1 = h_c02_accept4_t1, c02_accept4_t2 = h_c02_accept4_t2, c02_accept4_t3 = h_c02_accept4_t3, c02_accept4_t4 = h_c02_accept4_t4);
    reg!(c02_track4_t1 = h_c02_track4_t1, c02_track4_t2 = h_c02_track4_t2, c02_track4_t3 = h_c02_track4_t3);
    reg!(c14_from_buf4 = h_c14_from_buf4);
    reg!(c01_accept4 = h_c01_accept4, fin_reset4 = h_fin_reset4, fin_reset0 = h_fin_reset0, c08_matcher4 = h_c08_matcher4, c14_look_crc4 = h_c14_look_crc4, c14_done4 = h_c14_done4);
}
