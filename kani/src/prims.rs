//! C12 — type-length fields and primitive values (UNIT harnesses, differential against `spec`).
use crate::nd::{Nd, Out, Replay};
use crate::spec::spec_tlf;
use sml_rs::parser::tlf_verif as tv;

pub const TLF_MAX: usize = 12;

/// TLF of 0..=12 symbolic bytes: accepted with exactly the spec's (size, type, length), or rejected.
pub fn h_c12_tlf<N: Nd>(nd: &mut N) -> Out {
    let b: [u8; TLF_MAX] = nd.arr();
    let len = nd.usize();
    assume!(len <= TLF_MAX);
    let r = tv::parse_tlf(&b[..len]);
    let s = spec_tlf(&b[..len]);
    cover!(matches!(s, Some((n, _, _)) if n >= 9), "C12 witness: accepted TLF of 9+ bytes");
    cover!(s.is_none() && len >= 9, "C12 witness: rejected long TLF");
    match (r, s) {
        (Ok(x), Some(y)) => {
            check!(x.0 == y.0, "C12: TLF size differs from the SML rule");
            check!(x.1 == y.1, "C12: TLF type differs from the SML rule");
            check!(x.2 == y.2, "C12: TLF length differs from the SML rule (wrapped/truncated?)");
        }
        (Err(_), None) => {}
        (Ok(_), None) => {
            check!(false, "C12: TLF accepted that the SML rule rejects (overflow/underflow/reserved)");
        }
        (Err(_), Some(_)) => {
            check!(false, "C12: valid TLF rejected");
        }
    }
    Out::Pass
}
proof!(c12_tlf, 14, h_c12_tlf);

pub const INT_MAX: usize = 12;

/// Reference integer: (consumed, value as i128) or None.
fn spec_int(b: &[u8], signed: bool, size: usize) -> Option<(usize, i128)> {
    let (n, ty, l) = spec_tlf(b)?;
    let l = l as usize;
    if ty != (if signed { 5 } else { 6 }) {
        return None;
    }
    if l == 0 || l > size {
        return None;
    }
    if b.len() < n + l {
        return None;
    }
    let mut v: i128 = if signed && b[n] >= 0x80 { -1 } else { 0 };
    let mut i = 0;
    while i < l {
        v = (v << 8) | (b[n + i] as i128);
        i += 1;
    }
    Some((n + l, v))
}

macro_rules! int_harness {
    ($h:ident, $p:ident, $f:ident, $t:ty, $signed:expr) => {
        pub fn $h<N: Nd>(nd: &mut N) -> Out {
            let b: [u8; INT_MAX] = nd.arr();
            let len = nd.usize();
            assume!(len <= INT_MAX);
            let r = tv::$f(&b[..len]);
            let s = spec_int(&b[..len], $signed, core::mem::size_of::<$t>());
            cover!(s.is_some(), "C12 witness: integer accepted");
            match (r, s) {
                (Ok((c, v)), Some((sc, sv))) => {
                    check!(c == sc, "C12: integer consumed a different number of bytes");
                    check!(v as i128 == sv, "C12: integer value differs from big-endian two's complement");
                }
                (Err(_), None) => {}
                (Ok(_), None) => {
                    check!(false, "C12: integer accepted that the rule rejects (type/width/EOF)");
                }
                (Err(_), Some(_)) => {
                    check!(false, "C12: valid integer rejected");
                }
            }
            Out::Pass
        }
        proof!($p, 14, $h);
    };
}
int_harness!(h_c12_u8, c12_u8, parse_u8, u8, false);
int_harness!(h_c12_u16, c12_u16, parse_u16, u16, false);
int_harness!(h_c12_u32, c12_u32, parse_u32, u32, false);
int_harness!(h_c12_u64, c12_u64, parse_u64, u64, false);
int_harness!(h_c12_i8, c12_i8, parse_i8, i8, true);
int_harness!(h_c12_i16, c12_i16, parse_i16, i16, true);
int_harness!(h_c12_i32, c12_i32, parse_i32, i32, true);
int_harness!(h_c12_i64, c12_i64, parse_i64, i64, true);

/// Boolean: TLF `42`, value byte non-zero test.
pub fn h_c12_bool<N: Nd>(nd: &mut N) -> Out {
    let b: [u8; 4] = nd.arr();
    let len = nd.usize();
    assume!(len <= 4);
    let r = tv::parse_bool(&b[..len]);
    let s = match spec_tlf(&b[..len]) {
        Some((n, 4, 1)) if len >= n + 1 => Some((n + 1, b[n] != 0)),
        _ => None,
    };
    cover!(s.is_some(), "C12 witness: boolean accepted");
    match (r, s) {
        (Ok(x), Some(y)) => {
            check!(x == y, "C12: boolean differs from non-zero test");
        }
        (Err(_), None) => {}
        _ => {
            check!(false, "C12: boolean accept/reject differs from the rule");
        }
    }
    Out::Pass
}
proof!(c12_bool, 6, h_c12_bool);

pub const OS_MAX: usize = 10;

/// Octet string: exactly the `len` bytes after the TLF, or rejected.
pub fn h_c12_octets<N: Nd>(nd: &mut N) -> Out {
    let b: [u8; OS_MAX] = nd.arr();
    let len = nd.usize();
    assume!(len <= OS_MAX);
    let r = tv::parse_octet_str(&b[..len]);
    let s = match spec_tlf(&b[..len]) {
        Some((n, 0, l)) if (len - n) as u64 >= l as u64 => Some((n + l as usize, n, l as usize)),
        _ => None,
    };
    cover!(matches!(s, Some((_, n, l)) if n >= 2 && l >= 1), "C12 witness: octet string with multi-byte TLF");
    match (r, s) {
        (Ok(x), Some(y)) => {
            check!(x == y, "C12: octet string is not exactly the designated bytes");
        }
        (Err(_), None) => {}
        _ => {
            check!(false, "C12: octet string accept/reject differs from the rule");
        }
    }
    Out::Pass
}
proof!(c12_octets, 12, h_c12_octets);

pub fn register(v: &mut Vec<(&'static str, fn(&mut Replay) -> Out)>) {
    v.push(("c12_tlf", h_c12_tlf::<Replay>));
    v.push(("c12_u8", h_c12_u8::<Replay>));
    v.push(("c12_u16", h_c12_u16::<Replay>));
    v.push(("c12_u32", h_c12_u32::<Replay>));
    v.push(("c12_u64", h_c12_u64::<Replay>));
    v.push(("c12_i8", h_c12_i8::<Replay>));
    v.push(("c12_i16", h_c12_i16::<Replay>));
    v.push(("c12_i32", h_c12_i32::<Replay>));
    v.push(("c12_i64", h_c12_i64::<Replay>));
    v.push(("c12_bool", h_c12_bool::<Replay>));
    v.push(("c12_octets", h_c12_octets::<Replay>));
}
