#!/usr/bin/env python3
"""Apply each seeded change to /repo, run the check of the property it breaks, undo it.
usage: run_seeded.py [ids...]   (default: all of /verif/seeded). Results go to seeded/<id>/result.json.
Never run concurrently with other checks: it edits /repo's working tree."""
import json, os, subprocess, sys, time
V = '/verif'
ids = sys.argv[1:] or sorted(os.listdir(V + '/seeded'))
for i in ids:
    d = '%s/seeded/%s' % (V, i)
    if not os.path.exists(d + '/patch.diff'): continue
    meta = json.load(open(d + '/meta.json'))
    prop = meta['property']
    extra = meta.get('also_check', [])
    subprocess.run(['git', '-C', '/repo', 'checkout', '--', '.'], check=True)
    r = subprocess.run(['git', '-C', '/repo', 'apply', d + '/patch.diff'], capture_output=True, text=True)
    if r.returncode != 0:
        print(i, 'PATCH DOES NOT APPLY', r.stderr[:200]); continue
    res = {}
    try:
        for p in [prop] + extra:
            t0 = time.time()
            c = subprocess.run([V + '/check', p], capture_output=True, text=True, cwd=V)
            lines = [l for l in c.stdout.splitlines() if l.startswith(('VIOLATION', 'INCONCLUSIVE', 'OK', 'KNOWN'))]
            msgs = [l.strip() for l in c.stderr.splitlines() if l.startswith('  ')]
            res[p] = {'exit': c.returncode, 'wall_s': round(time.time() - t0), 'lines': lines[:6], 'messages': msgs[:6]}
            print(i, p, 'exit', c.returncode, round(time.time() - t0), 's', (msgs or lines)[:2], flush=True)
    finally:
        subprocess.run(['git', '-C', '/repo', 'checkout', '--', '.'], check=True)
    json.dump(res, open(d + '/result.json', 'w'), indent=1)
