#!/bin/sh
# usage: verify_mutant.sh <worktree> <mutant dir>   -- confirms: patch applies, existing tests pass with it, demo fails with it, demo passes without it
set -u
WT=$1; M=$2
cd "$WT" || exit 9
git checkout -q -- . ; rm -f tests/demo_mutant.rs
export CARGO_NET_OFFLINE=true
git apply --check "$M/patch.diff" || { echo "RESULT patch-does-not-apply"; exit 1; }
git apply "$M/patch.diff"
if cargo test --offline >/tmp/vm_suite.log 2>&1; then SUITE=pass; else SUITE=FAIL; fi
cp "$M/demo.rs" tests/demo_mutant.rs
if cargo test --offline --test demo_mutant >/tmp/vm_demo_mut.log 2>&1; then DEMO_MUT=pass; else DEMO_MUT=fail; fi
git checkout -q -- .
if cargo test --offline --test demo_mutant >/tmp/vm_demo_clean.log 2>&1; then DEMO_CLEAN=pass; else DEMO_CLEAN=fail; fi
rm -f tests/demo_mutant.rs
echo "RESULT suite_with_patch=$SUITE demo_with_patch=$DEMO_MUT demo_clean=$DEMO_CLEAN"
