"""Path exploration: DFS by re-execution from decision prefixes, distributed over worker processes."""
import os, sys, time, json, collections, multiprocessing as mp, traceback
sys.path.insert(0, os.path.dirname(os.path.abspath(__file__)))
import z3
from ir import load_program
from exec import World, Path, Interp, PathEnd, Limits

_W = None          # per-process world


def init_world(ll_files):
    global _W
    prog = load_program(ll_files)
    _W = World(prog)
    return _W


def make_input(path, spec):
    """spec['input']: list of ints (concrete) or 'S' (symbolic byte). Returns (addr, len, symbols)."""
    cells = []
    syms = {}
    for i, c in enumerate(spec['input']):
        if c == 'S':
            v = z3.BitVec('b%d' % i, 8); syms[i] = v; cells.append(v)
        elif isinstance(c, (list, tuple)) and c[0] == 'nib':
            # high nibble fixed, low nibble symbolic (structure bits of a TL byte concrete, length nibble free)
            v = z3.BitVec('b%d' % i, 8); syms[i] = v
            cells.append(z3.Concat(z3.BitVecVal(c[1], 4), z3.Extract(3, 0, v)))
        else:
            cells.append(int(c))
    a = path.alloc(max(len(cells), 1), 'input')
    path.dobjs[a].cells[:len(cells)] = cells
    path.dobjs[a].size = len(cells)
    return a, len(cells), syms


def cell_value(m, syms, i, c):
    if c == 'S':
        return m.eval(z3.BitVec('b%d' % i, 8), model_completion=True).as_long()
    if isinstance(c, (list, tuple)) and c[0] == 'nib':
        return (c[1] << 4) | (m.eval(z3.BitVec('b%d' % i, 8), model_completion=True).as_long() & 0xf)
    return int(c)


def run_one(spec, prefix, limits=Limits):
    """Execute one path. Returns (kind, info, path, concrete input or None)."""
    w = _W
    if spec.get('max_steps'):
        class L(Limits):
            max_steps = spec['max_steps']
        limits = L
    p = Path(w, prefix, limits)
    pol = spec.get('alloc_policy')
    if pol == 'none': p.alloc_policy = 'none'
    elif pol: p.alloc_policy = tuple(pol)
    if spec.get('alloc_fail_above') is not None: p.alloc_fail_above = int(spec['alloc_fail_above'])
    it = Interp(p)
    a, n, syms = make_input(p, spec)
    kind, info = 'ok', ''
    import signal
    def _alarm(sig, frm):
        # only set a flag: raising here could land inside a destructor / ctypes callback and be swallowed
        p.expired = True
    try:
        signal.signal(signal.SIGALRM, _alarm); signal.alarm(int(spec.get('path_seconds', 300)))
    except (ValueError, OSError):
        pass
    try:
        r = it.call('@' + spec['fn'], [a, n] + list(spec.get('extra_args', [])))
        info = r if isinstance(r, int) else 'sym'
        if p.k < len(p.prefix): kind, info = 'unsupported', 'replay desynchronised: prefix not consumed'
    except PathEnd as e:
        kind, info = e.kind, e.info
    except RecursionError:
        kind, info = 'budget', 'python recursion limit (call depth)'
    finally:
        try: signal.alarm(0)
        except (ValueError, OSError): pass
    model_input = None
    if kind in ('fail', 'panic', 'oob', 'budget', 'alloc') or spec.get('want_models'):
        try:
            m = p.feasible_model()
            model_input = bytes(cell_value(m, syms, i, c) for i, c in enumerate(spec['input']))
        except PathEnd as e:
            if kind != 'ok': kind, info = 'infeasible', 'terminal on an infeasible path (%s)' % info
    return kind, info, p, model_input


def explore_subtree(args):
    """worker task: DFS below `prefix` until the local budget is used; returns stats + leftover prefixes"""
    spec, prefixes, max_paths, max_s = args
    t0 = time.time()
    stack = list(prefixes)
    res = {'paths': 0, 'ends': collections.Counter(), 'violations': [], 'unsupported': [], 'steps': 0, 'queries': 0,
           'solver_s': 0.0, 'covers': set(), 'samples': [], 'fns': set(), 'max_heap': 0, 'max_steps_path': 0, 'max_depth': 0}
    try:
        while stack and res['paths'] < max_paths and time.time() - t0 < max_s:
            prefix = stack.pop()
            kind, info, p, inp = run_one(spec, prefix)
            res['paths'] += 1; res['ends'][kind] += 1
            res['steps'] += p.steps; res['queries'] += p.queries; res['solver_s'] += p.solver_s
            res['covers'] |= p.covers; res['fns'] |= p.fn_hits
            res['max_heap'] = max(res['max_heap'], p.heap_total); res['max_steps_path'] = max(res['max_steps_path'], p.steps)
            res['max_depth'] = max(res['max_depth'], p.max_depth)
            stack.extend(p.alts)
            if kind in ('fail', 'panic', 'oob', 'budget', 'alloc'):
                if len(res['violations']) < 20:
                    res['violations'].append({'kind': kind, 'info': str(info), 'input_hex': inp.hex() if inp is not None else None,
                                              'decisions': len(p.trace)})
            elif kind == 'unsupported':
                if len(res['unsupported']) < 5: res['unsupported'].append(str(info))
            if len(res['samples']) < 2 and kind == 'ok':
                try:
                    m = p.feasible_model()
                    ex = bytes(cell_value(m, None, i, c) for i, c in enumerate(spec['input']))
                    res['samples'].append({'decisions': len(p.trace), 'result': info, 'example_input_hex': ex.hex(), 'ir_steps': p.steps})
                except Exception:
                    pass
    except Exception as e:
        res['unsupported'].append('engine exception: ' + ''.join(traceback.format_exception_only(type(e), e)).strip() + ' @ ' + traceback.format_exc()[-400:])
        res['ends']['unsupported'] += 1
    res['leftover'] = stack
    res['ends'] = dict(res['ends']); res['covers'] = sorted(res['covers']); res['fns'] = sorted(res['fns'])
    return res


def _init_worker(ll_files):
    init_world(ll_files)


def new_agg():
    return {'paths': 0, 'ends': collections.Counter(), 'violations': [], 'unsupported': [], 'steps': 0, 'queries': 0, 'solver_s': 0.0,
            'covers': set(), 'samples': [], 'fns': set(), 'max_heap': 0, 'max_steps_path': 0, 'max_depth': 0, 'complete': False}


def merge(agg, res):
    agg['paths'] += res['paths']; agg['steps'] += res['steps']; agg['queries'] += res['queries']; agg['solver_s'] += res['solver_s']
    agg['ends'].update(res['ends']); agg['covers'] |= set(res['covers']); agg['fns'] |= set(res['fns'])
    agg['max_heap'] = max(agg['max_heap'], res['max_heap']); agg['max_steps_path'] = max(agg['max_steps_path'], res['max_steps_path'])
    agg['max_depth'] = max(agg.get('max_depth', 0), res.get('max_depth', 0))
    if len(agg['violations']) < 20: agg['violations'].extend(res['violations'])
    if len(agg['unsupported']) < 10: agg['unsupported'].extend(res['unsupported'])
    if len(agg['samples']) < 4: agg['samples'].extend(res['samples'])


def explore_many(specs, ll_files, jobs, pool=None, progress=None):
    """Explore several checks concurrently on one worker pool. Returns the list of aggregate results (same order)."""
    own = pool is None
    if own:
        pool = mp.Pool(jobs, initializer=_init_worker, initargs=(ll_files,))
    n = len(specs)
    aggs = [new_agg() for _ in specs]
    works = [collections.deque([()]) for _ in specs]
    inflight = [0] * n
    started = [None] * n
    finished = [None] * n
    stopped = [False] * n
    pending = []          # (spec index, async result)
    nxt = 0
    try:
        while True:
            # dispatch round-robin over specs with queued work
            progress_made = False
            tries = 0
            while len(pending) < jobs and tries < n:
                k = nxt % n; nxt += 1; tries += 1
                if stopped[k] or not works[k]: continue
                # limit how many specs are open at once so that each finishes quickly
                open_specs = sum(1 for x in range(n) if started[x] is not None and finished[x] is None)
                if started[k] is None and open_specs >= max(2, jobs // 2): continue
                if started[k] is None: started[k] = time.time()
                budget = max(2, min(300, aggs[k]['paths'] // max(jobs // 2, 1)))
                batch = [works[k].pop()]
                while works[k] and len(batch) < 4 and len(works[k]) > 4 * jobs: batch.append(works[k].pop())
                pending.append((k, pool.apply_async(explore_subtree, ((specs[k], batch, budget, 20.0),))))
                inflight[k] += 1
                tries = 0
            done = [(k, r) for (k, r) in pending if r.ready()]
            if not done:
                if not pending and not any(works[k] and not stopped[k] for k in range(n)): break
                time.sleep(0.01)
            for (k, r) in done:
                pending.remove((k, r))
                inflight[k] -= 1
                res = r.get()
                merge(aggs[k], res)
                if not stopped[k]: works[k].extend(res['leftover'])
                sp = specs[k]
                if aggs[k]['violations'] and len(aggs[k]['violations']) >= sp.get('max_violations', 3): stopped[k] = True
            now = time.time()
            for k in range(n):
                if started[k] is not None and finished[k] is None:
                    if not stopped[k] and now - started[k] > specs[k].get('max_seconds', 600): stopped[k] = True
                    if inflight[k] == 0 and (stopped[k] or not works[k]):
                        finished[k] = now
                        aggs[k]['complete'] = not works[k] and not stopped[k] or (not works[k] and bool(aggs[k]['violations']))
                        aggs[k]['left'] = len(works[k])
                        aggs[k]['wall_s'] = round(now - started[k], 2)
                        if progress: progress(k, aggs[k])
    finally:
        if own:
            pool.terminate(); pool.join()
    for k in range(n):
        a = aggs[k]
        if 'wall_s' not in a:
            a['wall_s'] = 0.0; a['left'] = len(works[k])
        a['ends'] = dict(a['ends']); a['covers'] = sorted(a['covers']); a['fns'] = sorted(a['fns'])
    return aggs


def explore(spec, ll_files, jobs, max_paths=10**9, max_seconds=10**9, pool=None):
    sp = dict(spec)
    if max_seconds < 10**8: sp['max_seconds'] = max_seconds
    return explore_many([sp], ll_files, jobs, pool=pool)[0]


def run_concrete(spec, ll_files=None):
    """Single concrete run in this process (translator validation). Returns (kind, info, steps)."""
    if _W is None: init_world(ll_files)
    kind, info, p, _ = run_one(spec, ())
    return kind, info, p.steps


if __name__ == '__main__':
    import glob
    files = sorted(glob.glob(sys.argv[1]))
    fn = sys.argv[2]
    inp = []
    for tok in sys.argv[3].split(','):
        if tok == 'S': inp.append('S')
        elif tok.startswith('S*'): inp.extend(['S'] * int(tok[2:]))
        else: inp.extend(bytes.fromhex(tok))
    spec = {'fn': fn, 'input': inp}
    jobs = int(sys.argv[4]) if len(sys.argv) > 4 else 1
    t0 = time.time()
    if jobs == 0:
        init_world(files)
        print('parsed in %.2fs: %d funcs' % (time.time() - t0, len(_W.prog.funcs)))
        print('linear tables:', {k: [(a, b, c) for a, b, c, d in v] for k, v in _W.linear_tables.items()})
        t0 = time.time()
        print(run_concrete(spec), '%.3fs' % (time.time() - t0))
    else:
        r = explore(spec, files, jobs, max_seconds=float(sys.argv[5]) if len(sys.argv) > 5 else 600)
        r['fns'] = len(r['fns'])
        print(json.dumps(r, indent=1, default=str))
