#![allow(unused)]
use sml_rs::transport::{Decoder, DecodeErr, decode_verif::DecoderState};
use sml_rs::util::{ArrayBuf, Buffer};

#[cfg(kani)]
mod proofs {
    use super::*;
    fn any_state() -> DecoderState {
        DecoderState { tag: kani::any(), num_discarded_bytes: kani::any(), num_init_seq_bytes: kani::any(),
            esc_chars: kani::any(), step: kani::any(), payload: kani::any(), raw_msg_len: kani::any(),
            zero_cache: kani::any(), crc: kani::any() }
    }
    fn inv(s: &DecoderState, bl: usize, dmax: u64, rmax: usize) -> bool {
        let raw = s.raw_msg_len; let zc = s.zero_cache as usize;
        if !(s.zero_cache <= 4 && raw < rmax) { return false; }
        match s.tag {
            0 => s.num_init_seq_bytes <= 7 && s.num_discarded_bytes <= dmax
                 && raw as u64 == s.num_discarded_bytes + s.num_init_seq_bytes as u64 && zc == 0 && bl == 0,
            1 => raw >= 8 && bl + zc <= raw - 8,
            2 => s.esc_chars >= 1 && s.esc_chars <= 3 && raw >= 8 + s.esc_chars as usize && bl + zc + s.esc_chars as usize <= raw - 8,
            3 => s.step <= 3 && raw >= 12 + s.step as usize && bl + zc <= raw - 12 - s.step as usize,
            4 => true,
            _ => false,
        }
    }
    fn any_buf<const N: usize>() -> ArrayBuf<N> {
        let mut b = ArrayBuf::<N>::default();
        let n: usize = kani::any();
        kani::assume(n <= N);
        let mut i = 0;
        while i < N { if i < n { let _ = b.push(kani::any()); } i += 1; }
        b
    }
    fn step_tag(tag: u8) {
        let mut s = any_state();
        s.tag = tag;
        let buf = any_buf::<4>();
        kani::assume(inv(&s, buf.len(), 65000, usize::MAX / 2));
        let mut d = Decoder::verif_from_state(buf, &s);
        let b: u8 = kani::any();
        let r = d.push_byte(b);
        let delivered = matches!(r, Ok(Some(_)));
        let s2 = d.verif_state();
        let bl2 = d.verif_buf().len();
        assert!(inv(&s2, bl2, 65535, usize::MAX / 2 + 1));
        kani::cover!(delivered);
    }
    #[kani::proof] #[kani::unwind(10)] fn step_t0() { step_tag(0) }
    #[kani::proof] #[kani::unwind(10)] fn step_t1() { step_tag(1) }
    #[kani::proof] #[kani::unwind(10)] fn step_t2() { step_tag(2) }
    #[kani::proof] #[kani::unwind(10)] fn step_t3() { step_tag(3) }
    #[kani::proof] #[kani::unwind(10)] fn step_t4() { step_tag(4) }
}
