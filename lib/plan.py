"""Which harnesses / symbolic checks decide which property, per tier."""

def tags(prefix, ts=(0, 1, 2, 3, 4)):
    return ['%s_t%d' % (prefix, t) for t in ts]

D = 'decstep::'
E1 = {
    'C01': {
        'quick': [D + 'c01_accept4'],
        'thorough': [D + 'c01_accept4'],
    },
    'C02': {
        'quick': [D + h for h in tags('c02_accept4') + tags('c02_track4', (1, 2, 3))],
        'thorough': [D + h for h in tags('c02_accept4') + tags('c02_track4', (1, 2, 3))],
    },
    'C05': {
        'quick': [D + h for h in tags('c05_step4')] + [D + 'fin_reset4', 'encstep::c07_enc_step', 'encstep::c07_enc_end'],
        'thorough': [D + h for h in tags('c05_step4') + tags('c05_step0') + tags('c05_step1')] + [D + 'fin_reset4', D + 'fin_reset0', 'encstep::c07_enc_step', 'encstep::c07_enc_end', 'encstep::c07_buf_4_20'],
    },
    'C07': {
        'quick': ['encstep::c07_enc_step', 'encstep::c07_enc_init', 'encstep::c07_enc_end', 'encstep::c07_buf_4_20'],
        'thorough': ['encstep::c07_enc_step', 'encstep::c07_enc_init', 'encstep::c07_enc_end', 'encstep::c07_buf_4_20', 'encstep::c07_buf_4_24', 'encstep::c07_buf_5_27'],
    },
    'C08': {
        'quick': [D + 'c08_matcher4'],
        'thorough': [D + 'c08_matcher4'],
    },
    'C11': {
        'quick': ['reader::c11_wb4', 'reader::c11_err4', 'reader::c11_eof4'],
        'thorough': ['reader::c11_wb4', 'reader::c11_err4', 'reader::c11_eof4'],
    },
    'C12': {
        'quick': ['prims::c12_tlf', 'prims::c12_u8', 'prims::c12_u16', 'prims::c12_u32', 'prims::c12_u64', 'prims::c12_i8', 'prims::c12_i16', 'prims::c12_i32', 'prims::c12_i64', 'prims::c12_bool', 'prims::c12_octets'],
    },
    'C14': {
        'quick': [D + h for h in tags('c14_step4')] + [D + 'c14_look_crc4', D + 'c14_done4', D + 'fin_reset4'],
    },
    'C15': {
        'quick': ['reader::' + h for h in tags('c15_read4')],
    },
    'C17': {
        'quick': [D + h for h in tags('c17_step4')] + [D + 'fin_reset4', 'reader::c11_wb4', 'reader::c11_err4', 'reader::c11_eof4'],
    },
    'C18': {
        'quick': ['arraybuf::c18_step_0', 'arraybuf::c18_step_1', 'arraybuf::c18_step_2', 'arraybuf::c18_step_5', 'arraybuf::c18_eq_0', 'arraybuf::c18_eq_1', 'arraybuf::c18_eq_5', 'arraybuf::c18_vec'],
        'thorough': ['arraybuf::c18_step_0', 'arraybuf::c18_step_1', 'arraybuf::c18_step_2', 'arraybuf::c18_step_5', 'arraybuf::c18_step_8', 'arraybuf::c18_eq_0', 'arraybuf::c18_eq_1', 'arraybuf::c18_eq_5', 'arraybuf::c18_vec'],
    },
}

# per-harness description of what is symbolic and what bounds it (goes into the evidence file)
E1_BOUNDS = {
    'decstep': 'ONE call from an arbitrary decoder state (all state fields + ArrayBuf<N> contents symbolic, constrained by INV of DESIGN.md 8.1), arbitrary byte; loops unwound 10 with unwinding assertions; raw_msg_len <= 2^62',
    'encstep': 'ONE Encoder::next from any (real state, reference state) pair in the simulation relation, arbitrary payload item; buffer encoder: all payloads of <= 4/5 symbolic bytes into ArrayBuf<C>',
    'prims': 'all byte strings of length 0..=12 (TLF, integers), 0..=4 (bool), 0..=10 (octet string)',
    'arraybuf': 'ONE operation (push/extend<=N+2 bytes/truncate(any k)/clear) from an arbitrary raw ArrayBuf<N> state incl. stale bytes, N in {0,1,2,5,8}',
    'reader': 'ONE source event (byte / WouldBlock / Other(e) / end of input) on a reader whose decoder is in an arbitrary INV state',
}


# ------------------------------------------------------------------------------------------------
# E2 (llsym) check specifications
# ------------------------------------------------------------------------------------------------
START = [0x1b] * 4 + [0x01] * 4
END = [0x1b] * 4 + [0x1a]


def S(n):
    return ['S'] * n


def spec(name, fn, inp, bounds, **kw):
    d = {'name': name, 'fn': fn, 'input': inp, 'bounds': bounds}
    d.update(kw)
    return d


def e2_checks(pid, tier, seed):
    q = tier == 'quick'
    out = []
    if pid == 'C01':
        for n in (range(0, 6) if q else range(0, 9)):
            out.append(spec('roundtrip_%d' % n, 'chk_roundtrip_%d' % n, S(n), 'payload of %d fully symbolic bytes; both encoders x 7 decoder front-ends; ArrayBuf capacity exactly %d' % (n, n), must_cover=[1]))
        for L, pos in ((255, (0, 254)), (256, (0, 255)), (257, (0, 256)), (260, (0, 3, 259))):
            inp = [0x55] * L
            for p_ in pos:
                inp[p_] = 'S'
            out.append(spec('roundtrip_long_%d' % L, 'chk_roundtrip_long', inp, 'payload of %d bytes, concrete 0x55 except %d symbolic bytes at %s' % (L, len(pos), list(pos)), must_cover=[1]))
    return out
