"""Which harnesses / symbolic checks decide which property, per tier."""

def tags(prefix, ts=(0, 1, 2, 3, 4)):
    return ['%s_t%d' % (prefix, t) for t in ts]

D = 'decstep::'
E1 = {
    'C01': {
        'quick': [D + 'c01_accept4'],
        'thorough': [D + 'c01_accept4'],
    },
    'C02': {
        'quick': [D + h for h in tags('c02_accept4') + tags('c02_track4', (1, 2, 3))],
        'thorough': [D + h for h in tags('c02_accept4') + tags('c02_track4', (1, 2, 3))],
    },
    'C05': {
        'quick': [D + h for h in tags('c05_step4')] + [D + 'fin_reset4', 'encstep::c07_enc_step', 'encstep::c07_enc_end'],
        'thorough': [D + h for h in tags('c05_step4') + tags('c05_step0') + tags('c05_step1')] + [D + 'fin_reset4', D + 'fin_reset0', 'encstep::c07_enc_step', 'encstep::c07_enc_end', 'encstep::c07_buf_4_20'],
    },
    'C07': {
        'quick': ['encstep::c07_enc_step', 'encstep::c07_enc_init', 'encstep::c07_enc_end', 'encstep::c07_buf_4_20'],
        'thorough': ['encstep::c07_enc_step', 'encstep::c07_enc_init', 'encstep::c07_enc_end', 'encstep::c07_buf_4_20', 'encstep::c07_buf_4_24', 'encstep::c07_buf_5_27'],
    },
    'C08': {
        'quick': [D + 'c08_matcher4', D + 'c17_step4_t0', D + 'c17_step4_t3', D + 'c17_step4_t4', 'reader::c11_wb4'],
        'thorough': [D + 'c08_matcher4', D + 'c17_step4_t0', D + 'c17_step4_t3', D + 'c17_step4_t4', 'reader::c11_wb4'],
    },
    'C11': {
        'quick': ['reader::c11_wb4', 'reader::c11_err4', 'reader::c11_eof4'],
        'thorough': ['reader::c11_wb4', 'reader::c11_err4', 'reader::c11_eof4'],
    },
    'C12': {
        'quick': ['prims::c12_tlf', 'prims::c12_u8', 'prims::c12_u16', 'prims::c12_u32', 'prims::c12_u64', 'prims::c12_i8', 'prims::c12_i16', 'prims::c12_i32', 'prims::c12_i64', 'prims::c12_bool', 'prims::c12_octets'],
    },
    'C14': {
        'quick': [D + h for h in tags('c14_step4')] + [D + 'c14_look_crc4', D + 'c14_done4', D + 'fin_reset4', D + 'c14_from_buf4'],
    },
    'C15': {
        'quick': ['reader::' + h for h in tags('c15_read4')],
    },
    'C16': {
        'quick': [D + 'c14_step4_t1', D + 'c14_step4_t2', D + 'c14_step4_t3'],
    },
    'C17': {
        'quick': [D + h for h in tags('c17_step4')] + [D + 'fin_reset4', 'reader::c11_wb4', 'reader::c11_err4', 'reader::c11_eof4'],
    },
    'C18': {
        'quick': ['arraybuf::c18_step_0', 'arraybuf::c18_step_1', 'arraybuf::c18_step_2', 'arraybuf::c18_step_5', 'arraybuf::c18_eq_0', 'arraybuf::c18_eq_1', 'arraybuf::c18_eq_5', 'arraybuf::c18_vec'],
        'thorough': ['arraybuf::c18_step_0', 'arraybuf::c18_step_1', 'arraybuf::c18_step_2', 'arraybuf::c18_step_5', 'arraybuf::c18_step_8', 'arraybuf::c18_eq_0', 'arraybuf::c18_eq_1', 'arraybuf::c18_eq_5', 'arraybuf::c18_vec'],
    },
}

# per-harness description of what is symbolic and what bounds it (goes into the evidence file)
# every STEP lemma assumes INV; its preservation (c05_step4_t*) is therefore part of each STEP-based property's own check
INV_LEMMAS = [D + h for h in tags('c05_step4')]
for _p in ('C01', 'C02', 'C08', 'C11', 'C14', 'C15', 'C16', 'C17'):
    for _t in list(E1[_p]):
        E1[_p][_t] = E1[_p][_t] + [h for h in INV_LEMMAS if h not in E1[_p][_t]]

E1_BOUNDS = {
    'decstep': 'ONE call from an arbitrary decoder state (all state fields + ArrayBuf<N> contents symbolic, constrained by INV of DESIGN.md 8.1), arbitrary byte; loops unwound 10 with unwinding assertions; raw_msg_len <= 2^62',
    'encstep': 'ONE Encoder::next from any (real state, reference state) pair in the simulation relation, arbitrary payload item; buffer encoder: all payloads of <= 4/5 symbolic bytes into ArrayBuf<C>',
    'prims': 'all byte strings of length 0..=12 (TLF, integers), 0..=4 (bool), 0..=10 (octet string)',
    'arraybuf': 'ONE operation (push/extend<=N+2 bytes/truncate(any k)/clear) from an arbitrary raw ArrayBuf<N> state incl. stale bytes, N in {0,1,2,5,8}',
    'reader': 'ONE source event (byte / WouldBlock / Other(e) / end of input) on a reader whose decoder is in an arbitrary INV state',
}


# ------------------------------------------------------------------------------------------------
# E2 (llsym) check specifications
# ------------------------------------------------------------------------------------------------
START = [0x1b] * 4 + [0x01] * 4
END = [0x1b] * 4 + [0x1a]


def S(n):
    return ['S'] * n


def spec(name, fn, inp, bounds, **kw):
    d = {'name': name, 'fn': fn, 'input': inp, 'bounds': bounds, 'report': ('fail', 'panic', 'budget')}
    d.update(kw)
    return d


def _lib():
    import gen_files
    return gen_files


def shapes(tier, heavy=False):
    """symbolic stream shapes for the decoder checks: (name, cells, description)"""
    q = tier == 'quick'
    out = []
    Ds = (range(0, 4) if q else range(0, 6)) if heavy else (range(0, 6) if q else range(0, 8))
    for D in Ds:
        out.append(('S1_D%d' % D, START + S(D) + END + S(3), 'start sequence, %d symbolic data bytes, 1b1b1b1b 1a, symbolic pad count and checksum' % D))
    K = (5 if q else 7) if heavy else (7 if q else 9)
    out.append(('S2_K%d' % K, START + S(K), 'start sequence then %d fully symbolic bytes' % K))
    out.append(('S3', START + S(2) + START + S(2) + END + S(3), 'restart inside a frame: start, 2 symbolic, start, 2 symbolic, end marker, 3 symbolic'))
    out.append(('S4', S(2) + START + S(2) + END + S(3), '2 symbolic noise bytes, frame with 2 symbolic data bytes and symbolic pad/checksum'))
    out.append(('S5', START + S(1) + [0x1b] * 3 + S(2) + END + S(3), 'data ending in a 0x1b run before symbolic bytes and the end sequence (re-alignment region)'))
    out.append(('S8', [0x1b] * 4 + [0x01] + S(2) + START + S(1) + END + S(3), 'noise = partial start sequence 1b1b1b1b 01 + 2 symbolic bytes, then a frame with 1 symbolic data byte and symbolic pad/checksum'))
    if not q:
        out.append(('S6', START + S(3) + [0x1b] * 4 + S(4) + S(4), 'escape sequence with fully symbolic payload after 3 symbolic data bytes'))
        out.append(('S7', S(3) + START + S(1) + START + S(1) + END + S(3) + S(2), 'noise, frame, restart, trailing bytes'))
    return out


def file_specs(fn_prefix, group, tier, seed, modes, names=None, nsym=16):
    """mutation-family specs over the generated skeleton files"""
    import random
    g = _lib()
    lib = g.library()
    rnd = random.Random(seed)
    out = []
    keys = list(lib)
    if names is not None:
        keys = [k for k in keys if k in names]
    for name in keys:
        b = lib[name]
        fb = list(b.b)
        for mode in modes:
            if mode == 0:
                # content bytes symbolic (at most nsym, chosen by seed in the quick tier)
                cont = list(b.content)
                pick = cont if len(cont) <= nsym else sorted(rnd.sample(cont, nsym))
                cells = list(fb)
                for o in pick:
                    cells[o] = 'S'
                inp = g.header(b, 0) + cells
                out.append(spec('%s_content_%s' % (group, name), '%s' % fn_prefix, inp, 'file %s (%d bytes): %d content bytes symbolic at offsets %s, checksums recomputed by the reference CRC' % (name, len(fb), len(pick), pick[:24])))
            elif mode in (1, 2):
                h = g.header(b, mode)
                h[-4] = 'S'; h[-2] = 'S'
                out.append(spec('%s_corrupt%d_%s' % (group, mode, name), fn_prefix, h + fb, 'file %s (%d bytes): ONE byte at a symbolic position set to a symbolic value (all positions x all 255 other values), checksums %s' % (name, len(fb), 'recomputed afterwards' if mode == 1 else 'left alone')))
            elif mode == 3:
                h = g.header(b, 3); h[-4] = 'S'
                out.append(spec('%s_trunc_%s' % (group, name), fn_prefix, h + fb, 'file %s truncated at every length 0..%d' % (name, len(fb) - 1)))
            elif mode == 4:
                for cnt in (1, 2):
                    h = g.header(b, 4, p0=cnt); h[-2] = 'S'; h[-1] = 'S' if cnt == 2 else 0
                    out.append(spec('%s_extend%d_%s' % (group, cnt, name), fn_prefix, h + fb, 'file %s extended by %d symbolic byte(s)' % (name, cnt)))
    return out


SMALL_FILES = ['close', 'open_full', 'open_bare_time', 'list1', 'list_opts', 'list0']
VALUE_FILES = ['list_vals_int', 'list_vals_uint', 'list_vals_misc', 'list_status']
ALL_FILES = None


def e2_checks(pid, tier, seed):
    q = tier == 'quick'
    out = []
    if pid == 'C01':
        for n in (range(0, 6) if q else range(0, 9)):
            out.append(spec('roundtrip_%d' % n, 'chk_roundtrip_%d' % n, S(n), 'payload of %d fully symbolic bytes; both encoders x 7 decoder front-ends; ArrayBuf capacity exactly %d' % (n, n), must_cover=[1]))
        R = [0x1b]
        out.append(spec('roundtrip_runs_4s4s', 'chk_roundtrip_10', R * 4 + S(1) + R * 4 + S(1), 'payload of 10 bytes: two runs of four 0x1b, each followed by a symbolic byte (several literal escapes, runs of 9)', must_cover=[1]))
        out.append(spec('roundtrip_runs_s8s', 'chk_roundtrip_10', S(1) + R * 8 + S(1), 'payload of 10 bytes: a run of eight 0x1b between two symbolic bytes', must_cover=[1]))
        longs = ((255, (253, 254)), (256, (254, 255)), (257, (255, 256)), (260, (258, 259))) if q else ((255, (0, 253, 254)), (256, (0, 254, 255)), (257, (1, 255, 256)), (260, (0, 3, 258, 259)), (1023, (1021, 1022)))
        for L, pos in longs:
            inp = [0x55] * L
            for p_ in pos:
                inp[p_] = 'S'
            out.append(spec('roundtrip_long_%d' % L, 'chk_roundtrip_long', inp, 'payload of %d bytes, concrete 0x55 except %d symbolic bytes at %s' % (L, len(pos), list(pos)), must_cover=[1]))
    elif pid == 'C02':
        for name, cells, d in shapes(tier):
            out.append(spec('sound_' + name, 'chk_sound', cells, d))
    elif pid == 'C17':
        for name, cells, d in shapes(tier):
            out.append(spec('tiling_' + name, 'chk_tiling', cells, d))
    elif pid == 'C15':
        for name, cells, d in shapes(tier, heavy=True):
            out.append(spec('agree_' + name, 'chk_agree', cells, d + '; push decoder (Vec, ArrayBuf<64>), decode, decode_streaming, SmlReader over slice / iterator / io::Read / default buffer', must_cover=[15]))
    elif pid == 'C05':
        K = 5 if q else 7
        out.append(spec('total_sym%d' % K, 'chk_total', S(K), '%d fully symbolic bytes through every transport entry point, 3 buffer capacities, interleaved reset/finalize' % K, must_cover=[5]))
        out.append(spec('total_start_sym%d' % (K - 1), 'chk_total', START + S(K - 1), 'start sequence + %d symbolic bytes through every transport entry point' % (K - 1), must_cover=[5]))
        out.append(spec('arraybuf_big', 'chk_arraybuf_big', S(3), 'ArrayBuf<65600> filled across the 2^16 boundary (narrow length counters)', must_cover=[18], max_steps=20000000))
        cells = [0x55] * 52; cells[50] = 'S'; cells[51] = 'S'
        out.append(spec('vec_oom_52', 'chk_vec_oom', cells, 'payload of 52 bytes with an allocator that refuses requests above 64 bytes: the Vec-backed encoder / decoder report OutOfMemory, never abort', must_cover=[71], alloc_fail_above=64))
        # stack growth: the same stream with 40 vs 160 noise bytes must reach the same call depth
        gfr = list(_lib().transport_encode(bytes([0x12, 0x34, 0x56, 0x78])))
        for L in (40, 160):
            out.append(spec('total_noise%d' % L, 'chk_total', [0x00] * L + gfr + S(1), 'every transport entry point on %d concrete noise bytes, a frame and one symbolic byte (call depth must not depend on the noise length)' % L, must_cover=[5], depth_group='noise', scale_input=(3000000, (bytes(gfr) + b'\x00').hex())))
        out.append(spec('total_end', 'chk_total', START + S(2) + END + S(3), 'frame with symbolic data and symbolic end-sequence payload', must_cover=[5]))
    elif pid == 'C07':
        for n in (range(0, 6) if q else range(0, 9)):
            out.append(spec('encode_%d' % n, 'chk_encode', S(n), 'payload of %d fully symbolic bytes: encode::<Vec>, encode_streaming (+3 extra next) and encode::<ArrayBuf<C>> for 21 capacities vs the reference encoder' % n, must_cover=[7]))
        # long runs of 0x1b (more than one inserted escape per run), symbolic bytes inside / around the runs
        R = [0x1b]
        runs = [('runs_4s4s', R * 4 + S(1) + R * 4 + S(1)), ('runs_s8s', S(1) + R * 8 + S(1)), ('runs_3s3s3', R * 3 + S(1) + R * 3 + S(1) + R * 3)]
        if not q:
            runs += [('runs_12', R * 5 + S(1) + R * 6), ('runs_s7s', S(2) + R * 7 + S(1))]
        for nm, cells in runs:
            out.append(spec('encode_' + nm, 'chk_encode', cells, 'payload of %d bytes: concrete runs of 0x1b with %d symbolic bytes inside/around them (several inserted escapes per run)' % (len(cells), sum(1 for c in cells if c == 'S')), must_cover=[7]))
        # growable buffer under allocation failure (requests above 64 bytes fail): reported, never an abort
        for L, pos in (((52, (50, 51)), (57, (52, 53, 54, 55))) if q else ((49, (47, 48)), (52, (50, 51)), (55, (51, 52, 53, 54)), (57, (52, 53, 54, 55)), (61, (56, 57, 58, 59)))):
            cells = [0x55] * L
            for o in pos: cells[o] = 'S'
            out.append(spec('vec_oom_%d' % L, 'chk_vec_oom', cells, 'payload of %d bytes (%d symbolic near the point where the Vec must grow past 64 bytes) with an allocator that refuses requests above 64 bytes: encode::<Vec> and Decoder<Vec> report OutOfMemory or deliver, never abort' % (L, len(pos)), must_cover=[71], alloc_fail_above=64))
        # runs of 0x1b straddling offsets 32 / 64 (chunked copies)
        for off in ((29, 61) if q else (28, 29, 30, 31, 32, 60, 61, 62, 63, 125)):
            cells = [0x55] * off + S(4) + [0x55] * 5
            out.append(spec('encode_chunk_%d' % off, 'chk_encode', cells, 'payload of %d bytes, concrete except 4 symbolic bytes at offsets %d..%d (a run of four 0x1b there needs an inserted escape)' % (len(cells), off, off + 3), must_cover=[7]))
        for L in ((256, 259) if q else (255, 256, 257, 259, 1024)):
            inp = [0x55] * L
            inp[L - 1] = 'S'; inp[L - 2] = 'S'
            out.append(spec('encode_long_%d' % L, 'chk_roundtrip_long', inp, 'payload of %d bytes with the last two symbolic: both encoders vs the reference encoder (8-bit pad counter wrap)' % L, must_cover=[1]))
    elif pid == 'C16':
        for L in (range(0, 5) if q else range(0, 6)):
            out.append(spec('capacity_%d' % L, 'chk_capacity_%d' % L, S(L), 'payload of %d symbolic bytes: capacity %d delivers; EVERY capacity 0..%d reports exactly one OutOfMemory, never data, and delivers the next frame' % (L, L, max(L - 1, 0)), must_cover=[16] if L else []))
        for L in ((8192, 8193)):
            inp = [0x42] * L
            inp[L - 1] = 'S'
            if not q: inp[L - 2] = 'S'
            out.append(spec('capacity_default_%d' % L, 'chk_capacity_default', inp, 'default 8 KiB reader buffer, payload of %d bytes (last %d symbolic)' % (L, 1 if q else 2), must_cover=[16], max_seconds=1500))
    elif pid == 'C08':
        for variant in range(5):
            for glen in (range(0, 4) if q else range(0, 6)):
                if variant and glen not in (0, 2, 3) and q: continue
                out.append(spec('resync_v%d_g%d' % (variant, glen), 'chk_resync', [variant, glen] + S(glen) + S(2), 'decoder history %d, %d symbolic noise bytes (assumed not to contain the start sequence), frame with 2 symbolic payload bytes' % (variant, glen), must_cover=[8]))
        for cut in range(8, 13):
            out.append(spec('cut_%d' % cut, 'chk_cut', [cut, 2] + S(2) + S(2), 'frame of a symbolic 2-byte payload cut after %d bytes (assumed not inside a 0x1b run / escape), then a frame with 2 symbolic payload bytes' % cut))
        # cut-off part containing an escaped 1b1b1b1b (wire length != decoded length)
        for cut in ((17, 18, 19) if q else (17, 18, 19, 20)):
            out.append(spec('cut_esc_%d' % cut, 'chk_cut', [cut, 6, 0x1b, 0x1b, 0x1b, 0x1b] + S(2) + S(2), 'frame of payload 1b1b1b1b + 2 symbolic bytes cut after %d bytes (after the inserted escape), then a frame with 2 symbolic payload bytes' % cut))
    elif pid == 'C14':
        K = 5 if q else 7
        for variant in range(6):
            out.append(spec('concat_v%d' % variant, 'chk_concat', [variant] + S(K), 'boundary kind %d (0 delivered, 1 invalid message, 2 invalid escape, 3 out of memory, 4 reset, 5 finalize) then %d fully symbolic bytes vs a new decoder' % (variant, K), must_cover=[14]))
            out.append(spec('concat_v%d_frame' % variant, 'chk_concat', [variant] + START + S(2) + END + S(3), 'boundary kind %d then a frame with symbolic data / pad / checksum vs a new decoder' % variant, must_cover=[14]))
    elif pid == 'C12':
        tail = [0x62, 0x00, 0x62, 0x00, 0x72, 0x63, 0x02, 0x01, 0x71, 0x01, 0x63] + S(2) + [0x00]
        for L in ((7, 8, 254, 255, 256, 300) if q else (1, 6, 7, 8, 9, 127, 254, 255, 256, 257, 300, 512, 70000)):
            out.append(spec('c12_tlf_long_list_%d' % L, 'chk_parse_c12', [0xF0] + [0x80] * L + [('nib', 0x0)] + [0x01] + tail, 'close message whose outer list TLF is continued over %d zero-nibble bytes (last nibble and checksum symbolic): both parsers vs the reference reader' % L, max_steps=30000000))
            out.append(spec('c12_tlf_long_str_%d' % L, 'chk_parse_c12', [0x76, 0x80] + [0x80] * L + [('nib', 0x0)] + S(2) + tail, 'transaction-id TLF continued over %d zero-nibble bytes, last nibble symbolic' % L, max_steps=30000000))
        # first length nibble symbolic as well (values that do / do not fit 32 bits, 64-bit accumulators that wrap after 16 nibbles)
        for L in ((6, 7, 8, 15, 16, 17) if q else (5, 6, 7, 8, 9, 14, 15, 16, 17, 18, 31, 32, 33, 300)):
            out.append(spec('c12_tlf_big_list_%d' % L, 'chk_parse_c12', [('nib', 0xF)] + [0x80] * L + [('nib', 0x0)] + [0x01] + tail, 'outer list TLF of %d bytes: first and last length nibble symbolic, zero nibbles between' % (L + 2), max_steps=30000000))
            out.append(spec('c12_tlf_big_str_%d' % L, 'chk_parse_c12', [0x76, ('nib', 0x8)] + [0x80] * L + [('nib', 0x0)] + S(2) + tail, 'transaction-id TLF of %d bytes: first and last length nibble symbolic' % (L + 2), max_steps=30000000))
        # type-length bytes of time / value / status fields replaced by a symbolic byte (checksums recomputed): width and type dispatch
        out += file_specs('chk_mut_c12', 'c12', tier, seed, [1], names=['open_bare_time', 'open_short_time', 'list1'] if q else ['open_bare_time', 'open_short_time', 'open_full', 'list_opts', 'list_vals_misc', 'list_vals_int', 'list_vals_uint', 'list_status'])
        # fully symbolic TLFs of up to 9 bytes at the transaction-id position, seen through both parsers
        for n in ((2, 4) if q else (1, 2, 3, 5, 9)):
            out.append(spec('c12_tid_tlf_n%d' % n, 'chk_parse_c12', [0x76] + S(n) + [0xAA] + tail, 'transaction-id TLF replaced by %d symbolic bytes (+1 data byte), checksum symbolic' % n))
    elif pid == 'C18':
        out.append(spec('arraybuf_big', 'chk_arraybuf_big', S(3), 'ArrayBuf<65600>: 65534 bytes by extend_from_slice, then 3 symbolic pushes / a 3-byte extend across the 2^16 boundary, truncate and clear (a narrower length counter would wrap)', must_cover=[18], max_steps=20000000))
    elif pid == 'C11':
        g = _lib()
        f1 = list(g.transport_encode(bytes([0x12, 0x34, 0x56, 0x78])))
        f2 = list(g.transport_encode(bytes([0x00, 0x1b])))
        for F in ((2, 3) if q else (2, 4, 5)):
            out.append(spec('faults_F%d_twoframes' % F, 'chk_faults', [F] + S(F) + f1 + f2, 'two concrete frames; the first %d read() calls follow a symbolic script over {byte, WouldBlock, Interrupted, Other, TimedOut, BrokenPipe, InvalidData, end-of-input}' % F, must_cover=[11]))
        # faults in the middle of a frame: script = k concrete 'deliver' entries then symbolic entries
        f3 = list(g.transport_encode(bytes([0x76, 0x01, 0x02])))
        for k in ((3, 9, 13, 19, 31, 32, 33, 64) if q else (1, 3, 5, 8, 9, 11, 13, 15, 16, 17, 19, 20, 31, 32, 33, 48, 63, 64, 65)):
            F = 2 if q else 3
            out.append(spec('faults_at%d' % k, 'chk_faults', [k + F] + [0] * k + S(F) + f1 + f2 + f3 + f1, 'four concrete frames (80 bytes); after %d delivered bytes, %d symbolic script entries over {byte, WouldBlock, Interrupted, Other, TimedOut, BrokenPipe, InvalidData, end-of-input}' % (k, F), must_cover=[11]))
        out.append(spec('faults_noise', 'chk_faults', [3] + S(3) + S(2) + f1, '3 symbolic script entries over 2 symbolic noise bytes + a frame', must_cover=[11]))
    elif pid == 'C10':
        g = _lib()
        lib = g.library()
        def e2e(name, src, bufk, files, noise, nchoice, sym_content=0):
            fb = [list(lib[f].b) for f in files]
            while len(fb) < 2: fb.append([])
            if sym_content:
                for o in lib[files[0]].content[:sym_content]:
                    fb[0][o] = 'S'
            j = list(noise) + [0] * (3 - len(noise))
            hdr = [src, bufk] + S(nchoice) + [0] * (6 - nchoice) + [j[0], len(fb[0]) & 0xff, len(fb[0]) >> 8, j[1], len(fb[1]) & 0xff, len(fb[1]) >> 8, j[2]]
            body = S(j[0]) + fb[0] + S(j[1]) + fb[1] + S(j[2])
            return spec(name, 'chk_e2e', hdr + body, 'source %d (0 slice, 1 iterator, 2 io::Read), buffer %d (0 default 8 KiB, 1 ArrayBuf<512>, 2 Vec), files %s framed by the reference encoder, symbolic noise bytes %s, %d symbolic per-call choices of target type and read/next, %d symbolic content bytes' % (src, bufk, files, list(noise), nchoice, sym_content), must_cover=[10], max_seconds=1200)
        combos = [(0, 0), (1, 1), (2, 2)] if q else [(s_, b_) for s_ in range(3) for b_ in range(3)]
        for (s_, b_) in combos:
            out.append(e2e('e2e_s%d_b%d_two' % (s_, b_), s_, b_, ['close', 'open_min'], (1, 1, 0), 2 if q else 3))
        out.append(e2e('e2e_list1_content', 0, 1, ['list1'], (0, 0, 1), 2, sym_content=2 if q else 4))
        out.append(e2e('e2e_list_noise2', 1, 2, ['list1', 'close'], (2, 0, 1), 1))
        # non-blocking io::Read: WouldBlock / Interrupted between bytes, the caller just calls next() again
        f1b = list(lib['close'].b); f2b = list(lib['open_min'].b)
        for k_ in ((0, 5, 21) if q else (0, 1, 5, 8, 13, 21, 28, 36, 40)):
            F = 2
            out.append(spec('e2e_nb_at%d' % k_, 'chk_e2e_nb', [k_ + F] + [0] * k_ + S(F) + [len(f1b) & 0xff, len(f1b) >> 8] + f1b + f2b, 'two files over a non-blocking io::Read: after %d delivered bytes, %d symbolic script entries over {byte, WouldBlock, Interrupted}; next::<File>() is retried on WouldBlock' % (k_, F), must_cover=[101]))
        if not q:
            out.append(e2e('e2e_three_msgs', 2, 0, ['file3', 'list_vals_misc'], (1, 1, 1), 3))
    elif pid in ('C04', 'C09', 'C13', 'C06', 'C03'):
        out = _parser_checks(pid, tier, seed)
        if pid == 'C06':
            for sp in out: sp['report'] = ('fail', 'panic', 'budget', 'alloc')
    for sp in out:
        sp.setdefault('max_seconds', 600 if q else 2400)
    return out


def _parser_checks(pid, tier, seed):
    q = tier == 'quick'
    out = []
    if True:
        g = {'C04': 'c04', 'C09': 'c09', 'C13': 'c13', 'C06': 'c06', 'C03': 'c03'}[pid]
        if pid != 'C03':
            for K in ((4, 8, 10) if q else (6, 10, 12)):
                out.append(spec('%s_sym%d' % (g, K), 'chk_parse_' + g, S(K), 'every byte string of length %d (all %d bytes symbolic)' % (K, K), max_seconds=1500))
            # message prefixes with a symbolic tail (reaches the bodies)
            pre_close = [0x76, 0x02, 0x11, 0x62, 0x00, 0x62, 0x00, 0x72, 0x63, 0x02, 0x01]
            pre_list = [0x76, 0x02, 0x11, 0x62, 0x00, 0x62, 0x00, 0x72, 0x63, 0x07, 0x01, 0x77, 0x01, 0x02, 0x0a, 0x01, 0x01]
            pre_open = [0x76, 0x02, 0x11, 0x62, 0x00, 0x62, 0x00, 0x72, 0x63, 0x01, 0x01]
            kk = 6 if q else 8
            out.append(spec('%s_close_tail%d' % (g, kk), 'chk_parse_' + g, pre_close + S(kk), 'close-message envelope then %d symbolic bytes' % kk))
            out.append(spec('%s_open_tail%d' % (g, kk), 'chk_parse_' + g, pre_open + S(kk), 'open-message envelope then %d symbolic bytes' % kk))
            out.append(spec('%s_list_tail%d' % (g, kk), 'chk_parse_' + g, pre_list + S(kk), 'get-list envelope up to the value list, then %d symbolic bytes' % kk, max_seconds=1500))
            # a close message with symbolic transaction id and the SHORT checksum form `62 xx` (valid when the first checksum byte is 0)
            out.append(spec('%s_shortcrc' % g, 'chk_parse_' + g, [0x76, 0x03] + S(2) + [0x62, 0x00, 0x62, 0x00, 0x72, 0x63, 0x02, 0x01, 0x71, 0x01, 0x62] + S(1) + [0x00], 'close message, 2 symbolic transaction-id bytes, checksum field in the 1-byte form 62 xx (symbolic)'))
            out.append(spec('%s_shortcrc2' % g, 'chk_parse_' + g, [0x76, 0x03] + S(2) + [0x62, 0x00, 0x62, 0x00, 0x72, 0x63, 0x02, 0x01, 0x71, 0x01, 0x62] + S(1) + [0x00] + [0x76, 0x03] + S(2) + [0x62, 0x00, 0x62, 0x00, 0x72, 0x63, 0x02, 0x01, 0x71, 0x01, 0x63] + S(2) + [0x00], 'two close messages, first with the short checksum form, second with the normal one, ids and checksums symbolic'))
            # message-body choice tag with a fully symbolic 5-byte encoding, checksum symbolic (recomputed by the solver)
            out.append(spec('%s_tagsym' % g, 'chk_parse_' + g, [0x76, 0x02, 0x11, 0x62, 0x00, 0x62, 0x00, 0x72] + S(5) + [0x71, 0x01, 0x63] + S(2) + [0x00], 'close message whose choice tag is 5 symbolic bytes (TL byte + up to 4 value bytes), checksum symbolic'))
            out.append(spec('%s_tagsym_list' % g, 'chk_parse_' + g, [0x76, 0x02, 0x11, 0x62, 0x00, 0x62, 0x00, 0x72, 0x65] + S(4) + [0x77, 0x01, 0x02, 0x0a, 0x01, 0x01, 0x70, 0x01, 0x01, 0x63] + S(2) + [0x00], 'message whose 4-byte choice tag value is symbolic, followed by a get-list body with an empty list, checksum symbolic'))
            # declared list length: 9-byte TLF with 36 symbolic length bits (incl. 2^32-2 / 2^32-1)
            gl = _lib().library()['list1']; fbl = list(gl.b)
            lp = [i for i in range(len(fbl)) if fbl[i] == 0x71 and i > 15][0]
            nib9 = [('nib', 0xF)] + [('nib', 0x8)] * 7 + [('nib', 0x0)]
            out.append(spec('%s_listlen36' % g, 'chk_parse_' + g, fbl[:lp] + nib9 + fbl[lp + 1:], 'get-list file whose list TL byte is replaced by a 9-byte TLF with 36 symbolic length bits'))
            if q:
                out += file_specs('chk_mut_' + g, g, tier, seed, [1, 2, 3, 4], names=SMALL_FILES)
                out += file_specs('chk_mut_' + g, g, tier, seed, [0], names=SMALL_FILES + VALUE_FILES[:2], nsym=12)
            else:
                # thorough: every small file plus the value / status / boundary-length files (measured: one 120-byte file costs
                # ~15 min of corrupt1 exploration on 10 workers, so the set is bounded rather than "all 27")
                more = SMALL_FILES + ['open_short_time', 'open_padtlf', 'close_sig', 'list_padtlf', 'octet16', 'list_empty_opts']
                out += file_specs('chk_mut_' + g, g, tier, seed, [1, 2, 3, 4], names=more)
                out += file_specs('chk_mut_' + g, g, tier, seed, [1], names=['list_vals_misc'])
                out += file_specs('chk_mut_' + g, g, tier, seed, [0], names=None, nsym=16)
        else:
            out += file_specs('chk_mut_c03', 'c03', tier, seed, [0], names=None, nsym=(14 if q else 28))
            # valid encodings the generator does not emit: the short checksum form, choice tags in 3/4-byte encodings
            # (inputs of these families that are not well-formed are not judged here)
            idp = [0x62, 0x00, 0x62, 0x00, 0x72, 0x63, 0x02, 0x01, 0x71, 0x01]
            out.append(spec('c03_shortcrc', 'chk_parse_c03w', [0x76, 0x03] + S(2) + idp + [0x62] + S(1) + [0x00], 'close message, symbolic transaction id, checksum in the 1-byte form 62 xx (symbolic): wherever this is a well-formed file both parsers must return it', must_cover=[32]))
            out.append(spec('c03_shortcrc2', 'chk_parse_c03w', [0x76, 0x03] + S(2) + idp + [0x62] + S(1) + [0x00] + [0x76, 0x03] + S(2) + idp + [0x63] + S(2) + [0x00], 'two close messages, the first with the short checksum form', must_cover=[32]))
            out.append(spec('c03_tag4', 'chk_parse_c03w', [0x76, 0x02, 0x11, 0x62, 0x00, 0x62, 0x00, 0x72, 0x65, 0x00, 0x00] + S(2) + [0x71, 0x01, 0x63] + S(2) + [0x00], 'close/other message with the choice tag in the 4-byte encoding (low half symbolic), checksum symbolic', must_cover=[32]))
            # the same files against the GENERATOR's own expected-content trace (oracle independent of the reference reader)
            import random
            g_ = _lib(); rnd = random.Random(seed + 1)
            for name, b in g_.library().items():
                h = g_.header_with_trace(b)
                cells = list(b.b)
                cont = list(b.content)
                nsym = 14 if q else 28
                pick = cont if len(cont) <= nsym else sorted(rnd.sample(cont, nsym))
                for o in pick: cells[o] = 'S'
                out.append(spec('c03_gen_%s' % name, 'chk_gen_c03', h + cells, 'file %s (%d bytes): %d content bytes symbolic, checksums recomputed; both parsers vs the generator\'s expected-content trace' % (name, len(cells), len(pick)), must_cover=[31]))
        if pid == 'C06':
            out.append(spec('c06_noalloc_sym', 'chk_stream_noalloc', S(8 if q else 11), 'streaming parser on fully symbolic bytes: no heap request, terminates'))
            out += len_attack_specs(tier)
    return out


def len_attack_specs(tier):
    """every TLF of a get-list message replaced by up to 9 symbolic bytes (all declared lengths up to and beyond 2^32-1)"""
    g = _lib()
    lib = g.library()
    out = []
    b = lib['list1']
    fb = list(b.b)
    # positions of TL bytes = non-content, non-checksum bytes; replace one at a time by N symbolic bytes
    # (the file is rebuilt around it; checksums are NOT recomputed: the parsers see the fields before the CRC)
    tl_positions = [i for i in range(len(fb)) if i not in b.content and fb[i] not in (0x01,) and i < b.fix[0][1] - 1]
    q = tier == 'quick'
    # the list-count field and the first octet-string field get the full 9 symbolic bytes (every declared length up to and
    # beyond 2^32-1) in both tiers; the other fields get 2 and 4 symbolic bytes in the quick tier
    list_tl = [i for i in tl_positions if fb[i] == 0x71 and i > 15][:1]
    key = set(tl_positions[1:2] + list_tl)
    def nib9(first_hi):
        # 9-byte TLF with concrete structure bits and a fully symbolic 36-bit length: every declared length up to and beyond 2^32-1
        return [('nib', first_hi)] + [('nib', 0x8)] * 7 + [('nib', 0x0)]
    for pos in tl_positions:
        ns = (1, 3, 5) if not q else (2, 4)
        for n in ns:
            cells = fb[:pos] + S(n) + fb[pos + 1:]
            out.append(spec('c06_len_p%d_n%d' % (pos, n), 'chk_parse_c06', cells, 'get-list file with the type-length byte at offset %d replaced by %d symbolic bytes' % (pos, n), max_seconds=900 if q else 3000))
    for pos in (sorted(key) if q else tl_positions):
        hi = 0x8 | (fb[pos] >> 4)
        cells = fb[:pos] + nib9(hi) + fb[pos + 1:]
        out.append(spec('c06_len36_p%d' % pos, 'chk_parse_c06', cells, 'TL byte at offset %d replaced by a 9-byte TLF of the same type whose 36 length bits are symbolic (all declared lengths 0 .. 2^36-1)' % pos, max_seconds=900))
        out.append(spec('c06_noalloc_len36_p%d' % pos, 'chk_stream_noalloc', cells, 'streaming parser, same 9-byte TLF with 36 symbolic length bits at offset %d' % pos, max_seconds=900))
    # type-length fields spanning hundreds of bytes (own-size counters)
    for L in ((254, 255, 256, 300) if q else (127, 128, 254, 255, 256, 257, 300, 511, 512, 70000)):
        tail = [0x62, 0x00, 0x62, 0x00, 0x72, 0x63, 0x02, 0x01, 0x71, 0x01, 0x63, 0x00, 0x00, 0x00]
        out.append(spec('c06_tlf_long_list_%d' % L, 'chk_parse_c06', [0xF0] + [0x80] * L + [('nib', 0x0)] + [0x01] + tail, 'message whose list TLF is continued over %d zero-nibble bytes, last nibble symbolic' % L, max_steps=30000000))
        out.append(spec('c06_tlf_long_str_%d' % L, 'chk_stream_noalloc', [0x76, 0x80] + [0x80] * L + [('nib', 0x0)] + tail, 'transaction-id TLF continued over %d zero-nibble bytes (streaming parser)' % L, max_steps=30000000))
    # declared count far beyond 17 GENUINE entries (a reservation made after the list "turned out genuine")
    b17 = lib['list17']; f17 = list(b17.b)
    lp = [i for i in range(len(f17) - 1) if f17[i] == 0xF1 and f17[i + 1] == 0x01][0]
    out.append(spec('c06_len36_list17', 'chk_parse_c06', f17[:lp] + nib9(0xF) + f17[lp + 2:], 'file with 17 genuine list entries whose 2-byte list TLF is replaced by a 9-byte TLF with 36 symbolic length bits', max_seconds=900))
    if not q:
        for pos in tl_positions[1:2]:
            cells = fb[:pos] + S(9) + fb[pos + 1:]
            out.append(spec('c06_len_p%d_n9' % pos, 'chk_parse_c06', cells, 'TL byte at offset %d replaced by 9 fully symbolic bytes' % pos, max_seconds=3000))
            out.append(spec('c06_noalloc_len_p%d' % pos, 'chk_stream_noalloc', cells, 'streaming parser, TL byte at offset %d replaced by 9 fully symbolic bytes' % pos, max_seconds=3000))
    return out
