#!/bin/sh
# Builds everything the checks need, offline, from files on disk: Kani goto binaries of all harnesses, the native
# replay binaries (debug + release) of both harness crates, and the LLVM IR that llsym executes.
# Every check re-runs these builds itself (cargo decides what is stale), so this only warms the caches.
set -e
cd "$(dirname "$0")"
export CARGO_NET_OFFLINE=true
exec /opt/veriftools/pyvenv/bin/python - <<'PY'
import sys, os
sys.path.insert(0, os.path.join(os.getcwd(), 'lib'))
import e1, e2
print('E1 build: %.0fs' % e1.prepare())
print('E2 build: %.0fs' % e2.prepare())
PY
