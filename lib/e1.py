"""Engine E1: Kani/CBMC harness crate (/verif/kani) over /repo's current working tree."""
import os, re, json, shutil, random
from concurrent.futures import ThreadPoolExecutor
from common import *

KANI_DIR = os.path.join(VERIF, 'kani')
KANI_TARGET = os.path.join(BUILD, 'kani-target')
NATIVE_TARGET = os.path.join(BUILD, 'kani-native-target')


class BuildError(Exception):
    pass


def prepare():
    """(Re)build the goto binaries of every harness and the native replay binary from /repo's tree."""
    os.makedirs(BUILD, exist_ok=True)
    shutil.copyfile(os.path.join(REPO, 'Cargo.lock'), os.path.join(KANI_DIR, 'Cargo.lock')) if os.path.exists(os.path.join(REPO, 'Cargo.lock')) else None
    rc, out, t = run(['cargo', 'kani', '--only-codegen', '--target-dir', KANI_TARGET], cwd=KANI_DIR, timeout=1800)
    if rc != 0:
        raise BuildError('cargo kani --only-codegen failed (hooks no longer match /repo?):\n' + out[-3000:])
    t_all = t
    for prof in ('debug', 'release'):
        cmd = ['cargo', 'build', '--offline', '--bin', 'replay', '--target-dir', NATIVE_TARGET] + (['--release'] if prof == 'release' else [])
        rc, out, t = run(cmd, cwd=KANI_DIR, timeout=1800)
        if rc != 0:
            raise BuildError('native replay build (%s) failed:\n%s' % (prof, out[-3000:]))
        t_all += t
    return t_all


def replay_bin(prof):
    return os.path.join(NATIVE_TARGET, prof, 'replay')


RE_CHECK = re.compile(r'^Check (\d+): (.+?)[ \t]*\n\s*- Status: (\w+)\s*\n\s*- Description: "(.*)"', re.M)
RE_STEPS = re.compile(r'size of program expression: (\d+) steps')
RE_VCC = re.compile(r'Generated (\d+) VCC\(s\), (\d+) remaining after simplification')
RE_VARS = re.compile(r'(\d+) variables, (\d+) clauses')
RE_SOLVER = re.compile(r'Runtime Solver: ([\d.e+-]+)s')
RE_DEC = re.compile(r'Runtime decision procedure: ([\d.e+-]+)s')
RE_SYMEX = re.compile(r'Runtime Symex: ([\d.e+-]+)s')
RE_TIME = re.compile(r'Verification Time: ([\d.]+)s')


def parse_playback(out):
    """Concrete playback blocks -> list of (check description, hex of concatenated values)."""
    res = []
    for m in re.finditer(r'/// Check for `(\w+)`: "(.*?)"\s*\n(.*?)kani::concrete_playback_run', out, re.S):
        desc = m.group(2).strip('"')
        body = m.group(3)
        bs = bytearray()
        for v in re.finditer(r'vec!\[([\d,\s]*)\]', body.split('vec![', 1)[1] if 'vec![' in body else ''):
            nums = [x for x in v.group(1).replace('\n', ' ').split(',') if x.strip()]
            bs.extend(int(x) for x in nums)
        res.append((desc, bytes(bs).hex()))
    return res


def run_harness(h, timeout, mem_gb=14):
    """h = 'module::name'. Returns a result dict."""
    cmd = ['cargo', 'kani', '--harness', h, '--exact', '--target-dir', KANI_TARGET,
           '-Z', 'concrete-playback', '--concrete-playback=print']
    rc, out, t = run(cmd, cwd=KANI_DIR, timeout=timeout, mem_gb=mem_gb)
    r = {'harness': h, 'wall_s': round(t, 1), 'rc': rc}
    checks = RE_CHECK.findall(out)
    r['n_checks'] = len(checks)
    r['n_success'] = sum(1 for c in checks if c[2] == 'SUCCESS')
    r['n_unreachable'] = sum(1 for c in checks if c[2] == 'UNREACHABLE')
    r['failed'] = [{'id': c[1], 'desc': c[3].strip('"')} for c in checks if c[2] in ('FAILURE', 'UNDETERMINED')]
    r['covers'] = [{'desc': c[3].strip('"'), 'status': c[2]} for c in checks if '.cover.' in c[1]]
    r['steps'] = sum(int(x) for x in RE_STEPS.findall(out))
    v = RE_VCC.findall(out)
    r['vccs'] = sum(int(a) for a, b in v)
    r['vccs_after_simpl'] = sum(int(b) for a, b in v)
    vs = RE_VARS.findall(out)
    r['sat_vars'] = max([int(a) for a, b in vs] or [0])
    r['sat_clauses'] = max([int(b) for a, b in vs] or [0])
    r['solver_s'] = round(sum(float(x) for x in RE_SOLVER.findall(out)), 2)
    r['decision_s'] = round(sum(float(x) for x in RE_DEC.findall(out)), 2)
    r['symex_s'] = round(sum(float(x) for x in RE_SYMEX.findall(out)), 2)
    r['sample_checks'] = [{'id': c[1], 'desc': c[3], 'status': c[2]} for c in checks if not c[3].startswith('unwinding') and 'smlverif' not in c[1]][:3] + \
                         [{'id': c[1], 'desc': c[3].strip('"'), 'status': c[2]} for c in checks if c[3].strip('"').startswith(('C0', 'C1'))][:4]
    if rc == 'timeout':
        r['status'] = 'inconclusive'; r['why'] = 'timeout after %ds' % timeout
    elif 'VERIFICATION:- SUCCESSFUL' in out:
        reach = [c for c in r['covers'] if c['desc'].startswith('reach:')]
        if reach and all(c['status'] == 'SATISFIED' for c in reach):
            r['status'] = 'pass'
        elif not reach:
            r['status'] = 'inconclusive'; r['why'] = 'no reachability witness in harness output'
        else:
            r['status'] = 'inconclusive'; r['why'] = 'vacuous: reachability witness not satisfiable'
    elif 'VERIFICATION:- FAILED' in out and r['failed']:
        r['status'] = 'fail'
        fd = set(f['desc'] for f in r['failed'])
        r['playback'] = [(d, h) for (d, h) in parse_playback(out) if d.strip('"') in fd] or [(d, h) for (d, h) in parse_playback(out) if not d.strip('"').startswith(('reach:', 'witness'))]
    else:
        r['status'] = 'inconclusive'
        r['why'] = 'no verdict (rc=%s; out of memory / CBMC error?)' % rc
        r['tail'] = out[-1500:]
    return r


def native_replay(h, hexvals):
    """Run the identical harness function natively (debug and release) on the solver's values."""
    name = h.split('::')[-1]
    res = {}
    for prof in ('debug', 'release'):
        rc, out, t = run([replay_bin(prof), name, hexvals], timeout=120)
        res[prof] = out.strip().splitlines()[-1] if out.strip() else 'rc=%s' % rc
    return res


def reproduced(rep):
    return any(v.startswith(('VIOLATED', 'PANIC')) for v in rep.values())


def native_fuzz(h, seed, count):
    """Positive control: the same harness function natively on pseudo-random values (debug build)."""
    name = h.split('::')[-1]
    rc, out, t = run([replay_bin('debug'), '--fuzz', name, str(seed), str(count)], timeout=300)
    try:
        return json.loads(out.strip().splitlines()[-1])
    except Exception:
        return {'error': out[-300:]}


def run_many(harnesses, timeout, jobs=None):
    jobs = jobs or max(1, min(NCPU, len(harnesses)))
    with ThreadPoolExecutor(max_workers=jobs) as ex:
        return list(ex.map(lambda h: run_harness(h, timeout), harnesses))
