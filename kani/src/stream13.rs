//! C13 — streaming parser: once the input is exhausted (which every error forces), any
//! countdown value ends the iteration after at most one more error (all 2^32 values).
use crate::nd::{Nd, Out, Replay};
use sml_rs::parser::streaming::Parser;

pub fn h_c13_empty<S: Nd>(nd: &mut S) -> Out {
    let pending = nd.u32() as u64;
    let mut p = Parser::verif_with_pending(&[], &[], pending);
    let first = p.next();
    let first_is_err = matches!(first, Some(Err(_)));
    let first_is_none = first.is_none();
    check!(first_is_err || first_is_none, "C13: event produced from empty input");
    let second = p.next();
    check!(second.is_none(), "C13: after an error or None the streaming parser must return None forever (error repeats)");
    let third = p.next();
    check!(third.is_none(), "C13: None is not absorbing");
    let (rest, pend) = p.verif_state();
    check!(rest == 0, "C13: input not emptied");
    cover!(first_is_err, "witness: error on truncated message");
    cover!(first_is_none, "witness: clean end");
    Out::Pass
}
// No #[kani::proof]: CBMC needs >36 GB for `Parser::next` even on an empty input (measured);
// C13 is decided by engine E2. The function is kept for native use by the replay binary.

pub fn register(v: &mut Vec<(&'static str, fn(&mut Replay) -> Out)>) {
    v.push(("c13_empty", h_c13_empty::<Replay>));
}
