#![allow(unused)]
use sml_rs::transport::{Decoder, DecodeErr, decode_verif::DecoderState};
use sml_rs::util::{ArrayBuf, Buffer};

#[cfg(kani)]
mod proofs {
    use super::*;

    fn any_state() -> DecoderState {
        DecoderState {
            tag: kani::any(), num_discarded_bytes: kani::any(), num_init_seq_bytes: kani::any(),
            esc_chars: kani::any(), step: kani::any(), payload: kani::any(), raw_msg_len: kani::any(),
            zero_cache: kani::any(), crc: kani::any(),
        }
    }
    fn inv(s: &DecoderState, buflen: usize) -> bool {
        s.tag <= 4
        && s.num_discarded_bytes <= u16::MAX as u64
        && (s.tag != 0 || s.num_init_seq_bytes <= 7)
        && (s.tag != 2 || (s.esc_chars >= 1 && s.esc_chars <= 3))
        && (s.tag != 3 || s.step <= 3)
        && s.zero_cache <= 4
        && s.raw_msg_len < usize::MAX
    }
    fn any_buf<const N: usize>() -> ArrayBuf<N> {
        let mut b = ArrayBuf::<N>::default();
        let n: usize = kani::any();
        kani::assume(n <= N);
        let mut i = 0;
        while i < N { if i < n { let _ = b.push(kani::any()); } i += 1; }
        b
    }

    #[kani::proof]
    #[kani::unwind(10)]
    fn step1_nopanic() {
        let s = any_state();
        let buf = any_buf::<8>();
        kani::assume(inv(&s, buf.len()));
        let mut d = Decoder::verif_from_state(buf, &s);
        let r = d.push_byte(kani::any());
        let ok = r.is_ok();
        let s2 = d.verif_state();
        assert!(inv(&s2, 0));
    }

    /// spec: decode TLF from bytes; None = must be rejected
    fn spec_tlf(b: &[u8]) -> Option<(usize, u8, u32)> {
        if b.is_empty() { return None; }
        let ty = (b[0] >> 4) & 7;
        if !(ty == 0 || ty == 4 || ty == 5 || ty == 6 || ty == 7) { return None; }
        let mut more = b[0] & 0x80 != 0;
        if ty == 4 && more { return None; }
        let mut val: u64 = (b[0] & 0x0f) as u64;
        let mut n = 1usize;
        while more {
            if n >= b.len() { return None; }
            let x = b[n];
            if (x >> 4) & 7 != 0 { return None; }
            more = x & 0x80 != 0;
            val = (val << 4) | (x & 0x0f) as u64;
            if val > u32::MAX as u64 { return None; }
            n += 1;
        }
        if ty != 7 {
            if val < n as u64 { return None; }
            val -= n as u64;
        }
        Some((n, ty, val as u32))
    }

    #[kani::proof]
    #[kani::unwind(12)]
    fn tlf_10() {
        let b: [u8; 10] = kani::any();
        let len: usize = kani::any();
        kani::assume(len <= 10);
        let r = sml_rs::parser::tlf_verif::parse_tlf(&b[..len]);
        let s = spec_tlf(&b[..len]);
        match (r, s) {
            (Ok(x), Some(y)) => assert!(x == y),
            (Err(_), None) => {},
            _ => assert!(false),
        }
    }
}
