use sml_rs::transport::{decode, encode, Decoder};
use sml_rs::util::ArrayBuf;
use sml_rs::parser::{complete, streaming};
fn main() {
    let which = std::env::args().nth(1).unwrap();
    let frame = encode::<Vec<u8>>(&[0x12u8, 0x34, 0x56, 0x78]).unwrap();
    match which.as_str() {
        "c08" => { // noise ending in 0x1b, then a valid frame
            let mut s = vec![0x1b]; s.extend(&frame);
            println!("{:?}", decode(&s));
            let mut s = vec![0x1b,0x1b,0x1b,0x1b,0x01]; s.extend(&frame);
            println!("{:?}", decode(&s));
        }
        "c17" => { // 65536 noise bytes
            let mut d = Decoder::<ArrayBuf<8>>::new();
            for _ in 0..65536u32 { let _ = d.push_byte(0); }
            let mut r = vec![];
            for b in &frame { r.push(format!("{:?}", d.push_byte(*b))); }
            println!("{:?}", r.iter().filter(|x| x.as_str() != "Ok(None)").collect::<Vec<_>>());
        }
        "c12" => { // 9-byte TLF for transaction id: nibbles 1,0,0,0,0,0,0,0,(9+1) => true len 2^32+10-9, wraps to 1
            let msg = [0x76, 0x81,0x80,0x80,0x80,0x80,0x80,0x80,0x80,0x0a, 0xAA, 0x62,0x00,0x62,0x00,0x72,0x63,0x02,0x01,0x71,0x01, 0x63,0,0,0];
            let mut p = streaming::Parser::new(&msg);
            println!("{:?}", p.next());
        }
        "c13" => { // bad crc: does the iterator stop?
            let msg = [0x76, 0x5, 0xdd, 0x43, 0x44, 0x0, 0x62, 0x0, 0x62, 0x0, 0x72, 0x63, 0x2, 0x1, 0x71, 0x1, 0x63, 0xfd, 0x57, 0x0];
            let mut p = streaming::Parser::new(&msg);
            for i in 0..5 { println!("{} {:?}", i, p.next().map(|r| r.map(|_| "event"))); }
        }
        "c06a" => { // list with declared length 0xFFFFFFFF: complete parser
            let msg = [0x76, 0x01, 0x62,0x00,0x62,0x00,0x72,0x63,0x07,0x01,0x77,0x01,0x01,0x01,0x01, 0xFF,0x8F,0x8F,0x8F,0x8F,0x8F,0x8F,0x0F, 0x01];
            println!("{:?}", complete::parse(&msg).map(|_| ()));
        }
        "c06b" => { // same, streaming parser (num_vals + 2)
            let msg = [0x76, 0x01, 0x62,0x00,0x62,0x00,0x72,0x63,0x07,0x01,0x77,0x01,0x01,0x01,0x01, 0xFF,0x8F,0x8F,0x8F,0x8F,0x8F,0x8F,0x0F, 0x01];
            let mut p = streaming::Parser::new(&msg);
            for i in 0..3 { println!("{} {:?}", i, p.next().map(|r| r.map(|_| "event"))); }
        }
        _ => {}
    }
}
