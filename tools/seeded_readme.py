#!/usr/bin/env python3
"""(Re)generate seeded/README.md from seeded/*/result.json."""
import json, os
V = '/verif'
rows = []
for i in sorted(os.listdir(V + '/seeded')):
    d = '%s/seeded/%s' % (V, i)
    if not os.path.exists(d + '/result.json'): continue
    meta = json.load(open(d + '/meta.json')); res = json.load(open(d + '/result.json'))
    for p, r in res.items():
        verdict = {0: 'exit 0 (not flagged)', 1: 'caught (VIOLATION)', 2: 'inconclusive (exit 2)'}.get(r['exit'], 'exit %s' % r['exit'])
        role = 'primary' if p == meta['property'] else 'also'
        msg = '; '.join(m.split('] ', 1)[-1][:100] for m in r['messages'][:1])
        rows.append('| %s | %s (%s) | %s | %s | %s |' % (i, p, role, verdict, msg.replace('|', '/'), (meta.get('breaks') or '')[:120].replace('|', '/').replace('\n', ' ')))
hdr = '''# Seeded changes and what the checks say about them

Each directory holds `patch.diff` (apply with `git -C /repo apply`, undo with `git -C /repo checkout -- .`), `demo.rs`
(an integration test that fails with the patch and passes without), `meta.json` (which property it breaks, what it needs
to manifest, how it was confirmed) and `result.json` (the quick check of the broken property — and of related properties
listed under `also_check` — run with the patch applied; produced by `tools/par_seeded.sh` / `tools/run_seeded.py`).
All 36 changes were written by independent sub-agents that saw only the property text and a scratch worktree; each was
confirmed in a scratch worktree (existing tests pass with it, demo fails with it, demo passes without it).

"primary" = the property the change was written to break; "also" = a related property checked in addition (a change is not
expected to violate those, so `exit 0` there is not a miss).

| seeded change | check | verdict | first message | what the change breaks |
|---|---|---|---|---|
'''
open(V + '/seeded/README.md', 'w').write(hdr + '\n'.join(rows) + '\n')
print(len(rows), 'rows')
