#!/usr/bin/env python3
"""Apply each seeded change to /repo, run the check of the property it breaks, undo it.
usage: run_seeded.py [ids...]   (default: all of /verif/seeded). Results go to seeded/<id>/result.json.
Never run concurrently with other checks: it edits /repo's working tree."""
import json, os, subprocess, sys, time
V = '/verif'
ids = sys.argv[1:] or sorted(os.listdir(V + '/seeded'))
for i in ids:
    d = '%s/seeded/%s' % (V, i)
    if not os.path.exists(d + '/patch.diff'): continue
    meta = json.load(open(d + '/meta.json'))
    prop = meta['property']
    extra = meta.get('also_check', [])
    subprocess.run(['git', '-C', '/repo', 'checkout', '--', '.'], check=True)
    r = subprocess.run(['git', '-C', '/repo', 'apply', d + '/patch.diff'], capture_output=True, text=True)
    if r.returncode != 0:
        print(i, 'PATCH DOES NOT APPLY', r.stderr[:200]); continue
    res = {}
    try:
        for p in [prop] + extra:
            t0 = time.time()
            c = subprocess.run([V + '/check', p], capture_output=True, text=True, cwd=V)
            lines = [l for l in c.stdout.splitlines() if l.startswith(('VIOLATION', 'INCONCLUSIVE', 'OK', 'KNOWN'))]
            msgs = [l.strip() for l in c.stderr.splitlines() if l.startswith('  ')]
            res[p] = {'exit': c.returncode, 'wall_s': round(time.time() - t0), 'lines': lines[:6], 'messages': msgs[:6]}
            print(i, p, 'exit', c.returncode, round(time.time() - t0), 's', (msgs or lines)[:2], flush=True)
    finally:
        subprocess.run(['git', '-C', '/repo', 'checkout', '--', '.'], check=True)
    json.dump(res, open(d + '/result.json', 'w'), indent=1)

# ---- summary table
rows = []
for i in sorted(os.listdir(V + '/seeded')):
    d = '%s/seeded/%s' % (V, i)
    if not os.path.exists(d + '/result.json'): continue
    meta = json.load(open(d + '/meta.json')); res = json.load(open(d + '/result.json'))
    for p, r in res.items():
        verdict = {0: 'MISSED (exit 0)', 1: 'caught (VIOLATION)', 2: 'inconclusive (exit 2)'}.get(r['exit'], 'exit %s' % r['exit'])
        rows.append('| %s | %s | %s | %s | %s |' % (i, p, verdict, '; '.join(m.split('] ', 1)[-1][:90] for m in r['messages'][:2]), (meta.get('breaks') or '')[:110].replace('|', '/')))
open(V + '/seeded/README.md', 'w').write('# Seeded changes and what the checks say about them\n\nEach directory holds `patch.diff` (apply with `git -C /repo apply`), `demo.rs` (fails with the patch, passes without), `meta.json` and `result.json` (output of `tools/run_seeded.py`: the quick check of the broken property run against /repo with the patch applied).\n\n| seeded change | check | verdict | first messages | what the change breaks |\n|---|---|---|---|---|\n' + '\n'.join(rows) + '\n')
