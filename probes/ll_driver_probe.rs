use sml_rs::transport::Decoder;
use sml_rs::util::ArrayBuf;

#[no_mangle]
pub extern "C" fn drv_decode(input: *const u8, len: usize, out: *mut u8) -> usize {
    let bytes = unsafe { core::slice::from_raw_parts(input, len) };
    let mut d = Decoder::<ArrayBuf<64>>::new();
    let mut n = 0usize;
    for &b in bytes {
        match d.push_byte(b) {
            Ok(None) => {}
            Ok(Some(m)) => { n += m.len(); unsafe { *out = m.len() as u8; } }
            Err(_) => { n += 1000; }
        }
    }
    n
}

#[no_mangle]
pub extern "C" fn drv_parse_stream(input: *const u8, len: usize) -> usize {
    let bytes = unsafe { core::slice::from_raw_parts(input, len) };
    let p = sml_rs::parser::streaming::Parser::new(bytes);
    let mut n = 0;
    for ev in p { n += 1; if ev.is_err() { n += 100; } }
    n
}

#[no_mangle]
pub extern "C" fn drv_parse_complete(input: *const u8, len: usize) -> usize {
    let bytes = unsafe { core::slice::from_raw_parts(input, len) };
    match sml_rs::parser::complete::parse(bytes) { Ok(f) => f.messages.len(), Err(_) => 999 }
}
