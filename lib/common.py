"""Shared helpers: paths, subprocess with limits, evidence writer, known findings."""
import json, os, resource, subprocess, sys, time, hashlib

VERIF = os.path.dirname(os.path.dirname(os.path.abspath(__file__)))
REPO = os.environ.get('VERIF_REPO', '/repo')
# all build output lives under /verif/.build (git-ignored); nothing under /tmp is needed by a check
BUILD = os.path.join(VERIF, '.build')
EVIDENCE = os.path.join(VERIF, 'evidence')
REPLAYS = os.path.join(VERIF, 'replays')
NCPU = int(os.environ.get('VERIF_JOBS', os.cpu_count() or 8))

ENV = dict(os.environ)
ENV['CARGO_NET_OFFLINE'] = 'true'
ENV.pop('RUSTFLAGS', None)


def log(*a):
    print(*a, file=sys.stderr, flush=True)


def run(cmd, cwd=None, timeout=None, mem_gb=None, env=None, stdin=None):
    """Run a command; returns (rc, stdout+stderr text, seconds). rc = 'timeout' on timeout."""
    def pre():
        os.setsid()
        if mem_gb:
            lim = int(mem_gb * (1 << 30))
            resource.setrlimit(resource.RLIMIT_AS, (lim, lim))
    t0 = time.time()
    p = subprocess.Popen(cmd, cwd=cwd, env=env or ENV, stdout=subprocess.PIPE, stderr=subprocess.STDOUT,
                         stdin=subprocess.PIPE if stdin is not None else subprocess.DEVNULL, preexec_fn=pre, text=True,
                         errors='replace')
    try:
        out, _ = p.communicate(input=stdin, timeout=timeout)
        rc = p.returncode
    except subprocess.TimeoutExpired:
        try:
            os.killpg(p.pid, 9)
        except Exception:
            pass
        out, _ = p.communicate()
        rc = 'timeout'
    return rc, out, time.time() - t0


def repo_fingerprint():
    """Short description of the tree being checked (HEAD + dirty diff hash)."""
    rc, head, _ = run(['git', '-C', REPO, 'rev-parse', '--short', 'HEAD'])
    rc, diff, _ = run(['git', '-C', REPO, 'diff', 'HEAD', '--', 'src', 'Cargo.toml'])
    d = hashlib.sha1(diff.encode()).hexdigest()[:8] if diff.strip() else 'clean'
    return '%s+%s' % (head.strip(), d)


def load_known():
    p = os.path.join(VERIF, 'known_findings.json')
    if not os.path.exists(p):
        return []
    return json.load(open(p)).get('findings', [])


def write_evidence(pid, tier, seed, coverage, assumptions, wall, violations, level='model_checking'):
    os.makedirs(EVIDENCE, exist_ok=True)
    ev = {
        'property_id': pid,
        'tier': tier,
        'seed': seed,
        'level': level,
        'coverage': coverage,
        'assumptions': assumptions,
        'wall_s': round(wall, 2),
        'violations': violations,
    }
    tmp = os.path.join(EVIDENCE, pid + '.json.tmp')
    json.dump(ev, open(tmp, 'w'), indent=1, sort_keys=False)
    os.replace(tmp, os.path.join(EVIDENCE, pid + '.json'))
