"""Path exploration: DFS by re-execution from decision prefixes, distributed over worker processes."""
import os, sys, time, json, collections, multiprocessing as mp, traceback
sys.path.insert(0, os.path.dirname(os.path.abspath(__file__)))
import z3
from ir import load_program
from exec import World, Path, Interp, PathEnd, Limits

_W = None          # per-process world


def init_world(ll_files):
    global _W
    prog = load_program(ll_files)
    _W = World(prog)
    return _W


def make_input(path, spec):
    """spec['input']: list of ints (concrete) or 'S' (symbolic byte). Returns (addr, len, symbols)."""
    cells = []
    syms = {}
    for i, c in enumerate(spec['input']):
        if c == 'S':
            v = z3.BitVec('b%d' % i, 8); syms[i] = v; cells.append(v)
        else:
            cells.append(int(c))
    a = path.alloc(max(len(cells), 1), 'input')
    path.dobjs[a].cells[:len(cells)] = cells
    path.dobjs[a].size = len(cells)
    return a, len(cells), syms


def run_one(spec, prefix, limits=Limits):
    """Execute one path. Returns (kind, info, path, concrete input or None)."""
    w = _W
    p = Path(w, prefix, limits)
    pol = spec.get('alloc_policy')
    if pol == 'none': p.alloc_policy = 'none'
    elif pol: p.alloc_policy = tuple(pol)
    it = Interp(p)
    a, n, syms = make_input(p, spec)
    kind, info = 'ok', ''
    try:
        r = it.call('@' + spec['fn'], [a, n] + list(spec.get('extra_args', [])))
        info = r if isinstance(r, int) else 'sym'
        if p.k < len(p.prefix): kind, info = 'unsupported', 'replay desynchronised: prefix not consumed'
    except PathEnd as e:
        kind, info = e.kind, e.info
    except RecursionError:
        kind, info = 'budget', 'python recursion limit (call depth)'
    model_input = None
    if kind in ('fail', 'panic', 'oob', 'budget') or spec.get('want_models'):
        try:
            m = p.feasible_model()
            model_input = bytes((m.eval(syms[i], model_completion=True).as_long() if i in syms else int(c))
                                for i, c in enumerate(spec['input']))
        except PathEnd as e:
            if kind != 'ok': kind, info = 'infeasible', 'terminal on an infeasible path (%s)' % info
    return kind, info, p, model_input


def explore_subtree(args):
    """worker task: DFS below `prefix` until the local budget is used; returns stats + leftover prefixes"""
    spec, prefixes, max_paths, max_s = args
    t0 = time.time()
    stack = list(prefixes)
    res = {'paths': 0, 'ends': collections.Counter(), 'violations': [], 'unsupported': [], 'steps': 0, 'queries': 0,
           'solver_s': 0.0, 'covers': set(), 'samples': [], 'fns': set(), 'max_heap': 0, 'max_steps_path': 0}
    try:
        while stack and res['paths'] < max_paths and time.time() - t0 < max_s:
            prefix = stack.pop()
            kind, info, p, inp = run_one(spec, prefix)
            res['paths'] += 1; res['ends'][kind] += 1
            res['steps'] += p.steps; res['queries'] += p.queries; res['solver_s'] += p.solver_s
            res['covers'] |= p.covers; res['fns'] |= p.fn_hits
            res['max_heap'] = max(res['max_heap'], p.heap_total); res['max_steps_path'] = max(res['max_steps_path'], p.steps)
            stack.extend(p.alts)
            if kind in ('fail', 'panic', 'oob', 'budget'):
                if len(res['violations']) < 20:
                    res['violations'].append({'kind': kind, 'info': str(info), 'input_hex': inp.hex() if inp is not None else None,
                                              'decisions': len(p.trace)})
            elif kind == 'unsupported':
                if len(res['unsupported']) < 5: res['unsupported'].append(str(info))
            if len(res['samples']) < 2 and kind == 'ok':
                try:
                    m = p.feasible_model()
                    ex = bytes((m.eval(z3.BitVec('b%d' % i, 8), model_completion=True).as_long() if c == 'S' else int(c)) for i, c in enumerate(spec['input']))
                    res['samples'].append({'decisions': len(p.trace), 'result': info, 'example_input_hex': ex.hex(), 'ir_steps': p.steps})
                except Exception:
                    pass
    except Exception as e:
        res['unsupported'].append('engine exception: ' + ''.join(traceback.format_exception_only(type(e), e)).strip() + ' @ ' + traceback.format_exc()[-400:])
        res['ends']['unsupported'] += 1
    res['leftover'] = stack
    res['ends'] = dict(res['ends']); res['covers'] = sorted(res['covers']); res['fns'] = sorted(res['fns'])
    return res


def _init_worker(ll_files):
    init_world(ll_files)


def explore(spec, ll_files, jobs, max_paths=10**9, max_seconds=10**9, pool=None):
    """Full exploration of one check. Returns an aggregate result dict."""
    t0 = time.time()
    own = pool is None
    if own:
        pool = mp.Pool(jobs, initializer=_init_worker, initargs=(ll_files,))
    agg = {'paths': 0, 'ends': collections.Counter(), 'violations': [], 'unsupported': [], 'steps': 0, 'queries': 0, 'solver_s': 0.0,
           'covers': set(), 'samples': [], 'fns': set(), 'max_heap': 0, 'max_steps_path': 0, 'complete': False}
    work = collections.deque([()])
    pending = []
    try:
        while work or pending:
            # dispatch
            while work and len(pending) < jobs:
                budget = max(2, min(400, agg['paths'] // max(jobs, 1)))
                batch = [work.pop()]
                # when plenty of work is queued give each task a few prefixes
                while work and len(batch) < 4 and len(work) > 4 * jobs: batch.append(work.pop())
                pending.append(pool.apply_async(explore_subtree, ((spec, batch, budget, 30.0),)))
            # collect
            done = [r for r in pending if r.ready()]
            if not done:
                time.sleep(0.02)
                if time.time() - t0 > max_seconds or agg['paths'] >= max_paths: break
                continue
            for r in done:
                pending.remove(r)
                res = r.get()
                agg['paths'] += res['paths']; agg['steps'] += res['steps']; agg['queries'] += res['queries']; agg['solver_s'] += res['solver_s']
                agg['ends'].update(res['ends']); agg['covers'] |= set(res['covers']); agg['fns'] |= set(res['fns'])
                agg['max_heap'] = max(agg['max_heap'], res['max_heap']); agg['max_steps_path'] = max(agg['max_steps_path'], res['max_steps_path'])
                if len(agg['violations']) < 20: agg['violations'].extend(res['violations'])
                if len(agg['unsupported']) < 10: agg['unsupported'].extend(res['unsupported'])
                if len(agg['samples']) < 4: agg['samples'].extend(res['samples'])
                work.extend(res['leftover'])
            if agg['violations'] and spec.get('stop_on_violation', True) and len(agg['violations']) >= spec.get('max_violations', 3):
                break
            if time.time() - t0 > max_seconds or agg['paths'] >= max_paths: break
        agg['complete'] = not work and not pending
    finally:
        if own:
            pool.terminate(); pool.join()
    agg['left'] = len(work) + len(pending)
    agg['wall_s'] = round(time.time() - t0, 2)
    agg['ends'] = dict(agg['ends']); agg['covers'] = sorted(agg['covers']); agg['fns'] = sorted(agg['fns'])
    return agg


def run_concrete(spec, ll_files=None):
    """Single concrete run in this process (translator validation). Returns (kind, info, steps)."""
    if _W is None: init_world(ll_files)
    kind, info, p, _ = run_one(spec, ())
    return kind, info, p.steps


if __name__ == '__main__':
    import glob
    files = sorted(glob.glob(sys.argv[1]))
    fn = sys.argv[2]
    inp = []
    for tok in sys.argv[3].split(','):
        if tok == 'S': inp.append('S')
        elif tok.startswith('S*'): inp.extend(['S'] * int(tok[2:]))
        else: inp.extend(bytes.fromhex(tok))
    spec = {'fn': fn, 'input': inp}
    jobs = int(sys.argv[4]) if len(sys.argv) > 4 else 1
    t0 = time.time()
    if jobs == 0:
        init_world(files)
        print('parsed in %.2fs: %d funcs' % (time.time() - t0, len(_W.prog.funcs)))
        print('linear tables:', {k: [(a, b, c) for a, b, c, d in v] for k, v in _W.linear_tables.items()})
        t0 = time.time()
        print(run_concrete(spec), '%.3fs' % (time.time() - t0))
    else:
        r = explore(spec, files, jobs, max_seconds=float(sys.argv[5]) if len(sys.argv) > 5 else 600)
        r['fns'] = len(r['fns'])
        print(json.dumps(r, indent=1, default=str))
