//! E2 checks for the SML parsers (C03, C04, C06, C09, C12, C13).
use crate::refsml::{self as rf, RBody, REntry, RMessage, RValue};
use crate::{cover, fail, heap_total, input};
use sml_rs::parser::common::{ListEntry, ListType, Status, Time, Value};
use sml_rs::parser::complete::{self, File, MessageBody as CBody};
use sml_rs::parser::streaming::{self, MessageBody as SBody, ParseEvent, Parser};
use sml_rs::parser::ParseError;

// ---------------------------------------------------------------- real results -> canonical form
fn conv_time(t: &Time) -> u32 {
    match t {
        Time::SecIndex(x) => *x,
    }
}

fn conv_entry<'a>(e: &ListEntry<'a>) -> REntry<'a> {
    REntry {
        obj_name: e.obj_name,
        status: e.status.as_ref().map(|s| match s {
            Status::Status8(x) => (1u8, *x as u64),
            Status::Status16(x) => (2, *x as u64),
            Status::Status32(x) => (4, *x as u64),
            Status::Status64(x) => (8, *x),
        }),
        val_time: e.val_time.as_ref().map(conv_time),
        unit: e.unit,
        scaler: e.scaler,
        value: match &e.value {
            Value::Bool(b) => RValue::Bool(*b),
            Value::Bytes(b) => RValue::Bytes(b),
            Value::I8(x) => RValue::Int(1, *x as i64),
            Value::I16(x) => RValue::Int(2, *x as i64),
            Value::I32(x) => RValue::Int(4, *x as i64),
            Value::I64(x) => RValue::Int(8, *x),
            Value::U8(x) => RValue::Uint(1, *x as u64),
            Value::U16(x) => RValue::Uint(2, *x as u64),
            Value::U32(x) => RValue::Uint(4, *x as u64),
            Value::U64(x) => RValue::Uint(8, *x),
            Value::List(ListType::Time(t)) => RValue::ListTime(conv_time(t)),
        },
        signature: e.value_signature,
    }
}

pub fn conv_file<'a>(f: &File<'a>) -> Vec<RMessage<'a>> {
    let mut out = Vec::with_capacity(f.messages.len());
    for m in f.messages.iter() {
        let body = match &m.message_body {
            CBody::OpenResponse(o) => RBody::Open {
                codepage: o.codepage,
                client_id: o.client_id,
                req_file_id: o.req_file_id,
                server_id: o.server_id,
                ref_time: o.ref_time.as_ref().map(conv_time),
                sml_version: o.sml_version,
            },
            CBody::CloseResponse(c) => RBody::Close { signature: c.global_signature },
            CBody::GetListResponse(g) => {
                let mut vals = Vec::with_capacity(g.val_list.len());
                for e in g.val_list.iter() {
                    vals.push(conv_entry(e));
                }
                RBody::GetList {
                    client_id: g.client_id,
                    server_id: g.server_id,
                    list_name: g.list_name,
                    act_sensor_time: g.act_sensor_time.as_ref().map(conv_time),
                    vals,
                    signature: g.list_signature,
                    act_gateway_time: g.act_gateway_time.as_ref().map(conv_time),
                }
            }
        };
        out.push(RMessage { transaction_id: m.transaction_id, group_no: m.group_no, abort_on_error: m.abort_on_error, body });
    }
    out
}

/// Outcome of draining the streaming parser.
pub struct StreamRun<'a> {
    /// completely reassembled messages (a list response counts once its end event arrived)
    pub msgs: Vec<RMessage<'a>>,
    pub err: Option<ParseError>,
    /// number of items yielded up to and including the first error
    pub items: usize,
    /// list protocol: n announced => exactly n entries, then one end event, before the next message
    pub protocol_ok: bool,
    /// a message was started but its list/end events had not all arrived when the stream ended
    pub open_list: bool,
    /// three further next() calls after the first error/None all returned None
    pub quiet_after_end: bool,
}

pub fn run_stream<'a>(x: &'a [u8]) -> StreamRun<'a> {
    let mut p = Parser::new(x);
    let mut r = StreamRun { msgs: Vec::new(), err: None, items: 0, protocol_ok: true, open_list: false, quiet_after_end: true };
    // pending list response: header fields + entries collected so far + announced count
    let mut cur: Option<(RMessage<'a>, u32)> = None;
    let limit = x.len() + 2;
    loop {
        if r.items > limit {
            // more items than input bytes + 1: report through `items`
            break;
        }
        match p.next() {
            None => break,
            Some(Err(e)) => {
                r.items += 1;
                r.err = Some(e);
                break;
            }
            Some(Ok(ev)) => {
                r.items += 1;
                match ev {
                    ParseEvent::MessageStart(ms) => {
                        if cur.is_some() {
                            r.protocol_ok = false;
                        }
                        match ms.message_body {
                            SBody::OpenResponse(o) => r.msgs.push(RMessage {
                                transaction_id: ms.transaction_id,
                                group_no: ms.group_no,
                                abort_on_error: ms.abort_on_error,
                                body: RBody::Open {
                                    codepage: o.codepage,
                                    client_id: o.client_id,
                                    req_file_id: o.req_file_id,
                                    server_id: o.server_id,
                                    ref_time: o.ref_time.as_ref().map(conv_time),
                                    sml_version: o.sml_version,
                                },
                            }),
                            SBody::CloseResponse(c) => r.msgs.push(RMessage {
                                transaction_id: ms.transaction_id,
                                group_no: ms.group_no,
                                abort_on_error: ms.abort_on_error,
                                body: RBody::Close { signature: c.global_signature },
                            }),
                            SBody::GetListResponse(g) => {
                                cur = Some((
                                    RMessage {
                                        transaction_id: ms.transaction_id,
                                        group_no: ms.group_no,
                                        abort_on_error: ms.abort_on_error,
                                        body: RBody::GetList {
                                            client_id: g.client_id,
                                            server_id: g.server_id,
                                            list_name: g.list_name,
                                            act_sensor_time: g.act_sensor_time.as_ref().map(conv_time),
                                            vals: Vec::new(),
                                            signature: None,
                                            act_gateway_time: None,
                                        },
                                    },
                                    g.num_vals,
                                ));
                            }
                        }
                    }
                    ParseEvent::ListEntry(le) => match cur.as_mut() {
                        Some((RMessage { body: RBody::GetList { vals, .. }, .. }, n)) => {
                            if vals.len() as u64 >= *n as u64 {
                                r.protocol_ok = false;
                            }
                            vals.push(conv_entry(&le));
                        }
                        _ => r.protocol_ok = false,
                    },
                    ParseEvent::GetListResponseEnd(end) => match cur.take() {
                        Some((mut m, n)) => {
                            if let RBody::GetList { vals, signature, act_gateway_time, .. } = &mut m.body {
                                if vals.len() as u64 != n as u64 {
                                    r.protocol_ok = false;
                                }
                                *signature = end.list_signature;
                                *act_gateway_time = end.act_gateway_time.as_ref().map(conv_time);
                            }
                            r.msgs.push(m);
                        }
                        None => r.protocol_ok = false,
                    },
                }
            }
        }
    }
    r.open_list = cur.is_some();
    let mut k = 0;
    while k < 3 {
        if p.next().is_some() {
            r.quiet_after_end = false;
        }
        k += 1;
    }
    r
}

fn same_kind(a: &ParseError, b: &ParseError) -> bool {
    match (a, b) {
        (ParseError::TlfMismatch(_), ParseError::TlfMismatch(_)) => true,
        (ParseError::InvalidTlf(x), ParseError::InvalidTlf(y)) => x == y,
        (ParseError::LeftoverInput, ParseError::LeftoverInput) => true,
        (ParseError::UnexpectedEOF, ParseError::UnexpectedEOF) => true,
        (ParseError::CrcMismatch, ParseError::CrcMismatch) => true,
        (ParseError::MsgEndMismatch, ParseError::MsgEndMismatch) => true,
        (ParseError::UnexpectedVariant, ParseError::UnexpectedVariant) => true,
        _ => false,
    }
}

pub const G_C04: u32 = 1; // vs reference reader
pub const G_C09: u32 = 2; // complete vs streaming
pub const G_C13: u32 = 4; // streaming terminates
pub const G_C06: u32 = 8; // resources
pub const G_C03: u32 = 16; // completeness (input is known to be a well-formed file)
pub const G_C03W: u32 = 32; // completeness on whatever inputs of the family ARE well-formed (others are not judged)

/// bound on heap bytes requested by `complete::parse` for an input of `len` bytes
pub fn heap_bound(len: usize) -> usize {
    let unit = core::mem::size_of::<ListEntry>().max(core::mem::size_of::<complete::Message>());
    4 * unit * (len + 4)
}

/// The parser family check. `groups` selects which assertion groups may fail the path
/// (every `./check Cxx` runs its own exploration with only its group armed).
pub fn parse_family(x: &[u8], groups: u32) -> u32 {
    // ---- complete parser (with the heap accounted for)
    let h0 = heap_total();
    let c = complete::parse(x);
    let h1 = heap_total();
    if groups & G_C06 != 0 && h1 - h0 > heap_bound(x.len()) {
        fail(601);
    }
    let cres: Result<Vec<RMessage>, ParseError> = match &c {
        Ok(f) => Ok(conv_file(f)),
        Err(e) => Err(e.clone()),
    };
    // ---- streaming parser
    let s = run_stream(x);
    // ---- reference reader
    if groups & G_C03W != 0 {
        if let Some(b) = rf::file(x) {
            match &cres {
                Ok(a) => {
                    if a != &b {
                        fail(321);
                    }
                }
                Err(_) => fail(322),
            }
            if s.err.is_some() || s.open_list || s.msgs != b {
                fail(323);
            }
            cover(32);
        }
    }
    if groups & (G_C04 | G_C03) != 0 {
        let r = rf::file(x);
        if groups & G_C03 != 0 && r.is_none() {
            // the generator promised a well-formed file: reference reader and generator disagree
            fail(399);
        }
        match (&cres, &r) {
            (Ok(a), Some(b)) => {
                if a != b {
                    fail(if groups & G_C03 != 0 { 301 } else { 401 });
                }
                cover(41);
            }
            (Err(_), None) => cover(42),
            (Ok(_), None) => fail(402),  // data returned for input the grammar rejects
            (Err(_), Some(_)) => fail(if groups & G_C03 != 0 { 302 } else { 403 }), // well-formed file rejected
        }
        match (&s.err, &r) {
            (None, Some(b)) => {
                if s.open_list || &s.msgs != b {
                    fail(if groups & G_C03 != 0 { 303 } else { 404 });
                }
            }
            (Some(_), None) => {}
            (None, None) => fail(405),
            (Some(_), Some(_)) => fail(if groups & G_C03 != 0 { 304 } else { 406 }),
        }
    }
    if groups & G_C09 != 0 {
        match (&cres, &s.err) {
            (Ok(a), None) => {
                if s.open_list || a != &s.msgs {
                    fail(901);
                }
                cover(91);
            }
            (Err(e1), Some(e2)) => {
                if !same_kind(e1, e2) {
                    fail(902);
                }
                cover(92);
            }
            (Ok(_), Some(_)) => fail(903),
            (Err(_), None) => fail(904),
        }
        if !s.protocol_ok {
            fail(905);
        }
    }
    if groups & G_C13 != 0 {
        if !s.quiet_after_end {
            fail(1301);
        }
        if s.items > x.len() + 1 {
            fail(1302);
        }
        cover(131);
    }
    s.items as u32
}

macro_rules! family {
    ($name:ident, $g:expr) => {
        #[no_mangle]
        pub extern "C" fn $name(p: *const u8, n: usize) -> u32 {
            parse_family(unsafe { input(p, n) }, $g)
        }
    };
}
family!(chk_parse_c04, G_C04);
family!(chk_parse_c09, G_C09);
family!(chk_parse_c13, G_C13);
family!(chk_parse_c06, G_C06);
family!(chk_parse_c03, G_C03);
family!(chk_parse_c03w, G_C03W);
// C12 at the public API: same comparison with the reference reader, used on inputs that stress type-length fields
family!(chk_parse_c12, G_C04);
family!(chk_parse_all, G_C04 | G_C09 | G_C13 | G_C06);

/// C06: the streaming parser allocates nothing (and terminates) on any bytes.
#[no_mangle]
pub extern "C" fn chk_stream_noalloc(p: *const u8, n: usize) -> u32 {
    let x = unsafe { input(p, n) };
    let h0 = heap_total();
    let mut items = 0usize;
    let mut it = Parser::new(x);
    loop {
        match it.next() {
            None => break,
            Some(Err(_)) => {
                items += 1;
                break;
            }
            Some(Ok(_)) => items += 1,
        }
        if items > x.len() + 2 {
            fail(603);
            break;
        }
    }
    if heap_total() != h0 {
        fail(602);
    }
    items as u32
}

/// Recompute every message checksum of a file with the bit-wise reference CRC.
/// `fixups`: pairs (message start, offset of the 2 checksum bytes).
pub fn fix_crcs(buf: &mut [u8], fixups: &[(usize, usize)]) {
    for &(start, at) in fixups {
        // the checksum covers the message up to (not including) the TL byte `63` before the two bytes
        let c = crate::spec::crc16_x25(&buf[start..at - 1]);
        buf[at] = (c & 0xff) as u8;
        buf[at + 1] = (c >> 8) as u8;
    }
}

/// Input layout: [k][k × (start: u16 LE, crc_at: u16 LE)] ‖ file bytes. The file's checksums are
/// recomputed (so corrupted / symbolic content comes with a VALID checksum), then `parse_family`.
pub fn with_fixups(raw: &[u8], groups: u32) -> u32 {
    if raw.is_empty() {
        return 0;
    }
    let k = raw[0] as usize;
    let hdr = 1 + 4 * k;
    if raw.len() < hdr {
        return 0;
    }
    let mut fix = Vec::with_capacity(k);
    let mut i = 0;
    while i < k {
        let o = 1 + 4 * i;
        fix.push(((raw[o] as usize) | ((raw[o + 1] as usize) << 8), (raw[o + 2] as usize) | ((raw[o + 3] as usize) << 8)));
        i += 1;
    }
    let mut buf = raw[hdr..].to_vec();
    fix_crcs(&mut buf, &fix);
    parse_family(&buf, groups)
}

macro_rules! family_fix {
    ($name:ident, $g:expr) => {
        #[no_mangle]
        pub extern "C" fn $name(p: *const u8, n: usize) -> u32 {
            with_fixups(unsafe { input(p, n) }, $g)
        }
    };
}
family_fix!(chk_fix_c04, G_C04);
family_fix!(chk_fix_c09, G_C09);
family_fix!(chk_fix_c13, G_C13);
family_fix!(chk_fix_c06, G_C06);
family_fix!(chk_fix_c03, G_C03);

/// branch-per-value concretisation of a small symbolic number (one path per value)
pub fn pick(v: usize, max: usize) -> usize {
    let mut i = 0;
    while i < max {
        if v == i {
            return i;
        }
        i += 1;
    }
    max
}

/// Mutation family. Input: [k][k x (start u16, crc_at u16)][mode][p0][p1][v0][v1] || file bytes.
///  mode 0: file as given (content bytes may be symbolic), checksums recomputed
///  mode 1: byte at position p0 := v0, checksums recomputed afterwards (structural corruption behind a VALID checksum)
///  mode 2: byte at position p0 := v0, checksums left alone
///  mode 3: file (checksums recomputed) truncated to p0 bytes
///  mode 4: file extended by p0 (1 or 2) bytes v0, v1
///  mode 5: bytes at p0 and p1 := v0, v1, checksums recomputed
pub fn mutated(raw: &[u8], groups: u32) -> u32 {
    if raw.is_empty() {
        return 0;
    }
    let k = raw[0] as usize;
    let hdr = 1 + 4 * k + 5;
    if raw.len() < hdr {
        return 0;
    }
    let mut fix = Vec::with_capacity(k);
    let mut i = 0;
    while i < k {
        let o = 1 + 4 * i;
        fix.push(((raw[o] as usize) | ((raw[o + 1] as usize) << 8), (raw[o + 2] as usize) | ((raw[o + 3] as usize) << 8)));
        i += 1;
    }
    let mode = raw[1 + 4 * k];
    let (p0, p1, v0, v1) = (raw[hdr - 4] as usize, raw[hdr - 3] as usize, raw[hdr - 2], raw[hdr - 1]);
    let mut buf = raw[hdr..].to_vec();
    let n = buf.len();
    match mode {
        0 => fix_crcs(&mut buf, &fix),
        1 => {
            crate::assume(p0 < n);
            let p = pick(p0, n);
            crate::assume(buf[p] != v0);
            buf[p] = v0;
            fix_crcs(&mut buf, &fix);
        }
        2 => {
            fix_crcs(&mut buf, &fix);
            crate::assume(p0 < n);
            let p = pick(p0, n);
            crate::assume(buf[p] != v0);
            buf[p] = v0;
        }
        3 => {
            fix_crcs(&mut buf, &fix);
            crate::assume(p0 < n);
            let p = pick(p0, n);
            buf.truncate(p);
        }
        4 => {
            fix_crcs(&mut buf, &fix);
            buf.extend_from_slice(&[v0]);
            if p0 == 2 {
                buf.extend_from_slice(&[v1]);
            }
        }
        _ => {
            crate::assume(p0 < n && p1 < n && p0 < p1);
            let a = pick(p0, n);
            let b = pick(p1, n);
            buf[a] = v0;
            buf[b] = v1;
            fix_crcs(&mut buf, &fix);
        }
    }
    parse_family(&buf, groups)
}

macro_rules! family_mut {
    ($name:ident, $g:expr) => {
        #[no_mangle]
        pub extern "C" fn $name(p: *const u8, n: usize) -> u32 {
            mutated(unsafe { input(p, n) }, $g)
        }
    };
}
family_mut!(chk_mut_c04, G_C04);
family_mut!(chk_mut_c09, G_C09);
family_mut!(chk_mut_c13, G_C13);
family_mut!(chk_mut_c06, G_C06);
family_mut!(chk_mut_c03, G_C03);
family_mut!(chk_mut_c12, G_C04);

// ------------------------------------------------------------------------------------------------
// C03 with the GENERATOR as oracle: the expected content of a generated file is given as a trace of
// (kind, offset, width) tokens by lib/gen_files.py; values are read from the (possibly symbolic) file bytes
// at those offsets. Independent of the reference reader.
// ------------------------------------------------------------------------------------------------
struct Tr<'a> {
    t: &'a [u8],
    i: usize,
    f: &'a [u8],
    ok: bool,
}

impl<'a> Tr<'a> {
    fn byte(&mut self) -> u8 {
        if self.i < self.t.len() {
            self.i += 1;
            self.t[self.i - 1]
        } else {
            self.ok = false;
            0xEE
        }
    }
    fn off(&mut self) -> usize {
        let lo = self.byte() as usize;
        lo | ((self.byte() as usize) << 8)
    }
    fn tag(&mut self, want: u8) {
        if self.byte() != want {
            self.ok = false;
        }
    }
    fn slice(&mut self, off: usize, len: usize) -> &'a [u8] {
        if off + len <= self.f.len() {
            &self.f[off..off + len]
        } else {
            self.ok = false;
            &self.f[0..0]
        }
    }
    fn bytes(&mut self, got: &[u8]) {
        self.tag(0x01);
        let off = self.off();
        let len = self.off();
        if self.slice(off, len) != got {
            self.ok = false;
        }
    }
    fn opt_bytes(&mut self, got: Option<&[u8]>) {
        match got {
            None => self.tag(0x02),
            Some(g) => self.bytes(g),
        }
    }
    /// unsigned token: returns (width, value)
    fn uint_tok(&mut self, tag: u8) -> (usize, u64) {
        self.tag(tag);
        let off = self.off();
        let w = self.byte() as usize;
        let mut v = 0u64;
        for b in self.slice(off, w) {
            v = (v << 8) | *b as u64;
        }
        (w, v)
    }
    fn uint(&mut self, got: u64) {
        let (_, v) = self.uint_tok(0x03);
        if v != got {
            self.ok = false;
        }
    }
    fn opt_time(&mut self, got: Option<u32>) {
        match got {
            None => self.tag(0x02),
            Some(g) => {
                let (_, v) = self.uint_tok(0x05);
                if v != g as u64 {
                    self.ok = false;
                }
            }
        }
    }
    fn sint_tok(&mut self) -> (usize, i64) {
        self.tag(0x04);
        let off = self.off();
        let w = self.byte() as usize;
        let s = self.slice(off, w);
        let mut v: u64 = if !s.is_empty() && s[0] & 0x80 != 0 { u64::MAX } else { 0 };
        for b in s {
            v = (v << 8) | *b as u64;
        }
        (w, v as i64)
    }
}

fn class_of(w: usize) -> u8 {
    if w == 1 {
        1
    } else if w == 2 {
        2
    } else if w <= 4 {
        4
    } else {
        8
    }
}

fn walk(msgs: &[RMessage], tr: &mut Tr) {
    for m in msgs {
        tr.tag(0xA0);
        tr.bytes(m.transaction_id);
        tr.uint(m.group_no as u64);
        tr.uint(m.abort_on_error as u64);
        match &m.body {
            RBody::Open { codepage, client_id, req_file_id, server_id, ref_time, sml_version } => {
                tr.tag(0xB1);
                tr.opt_bytes(*codepage);
                tr.opt_bytes(*client_id);
                tr.bytes(req_file_id);
                tr.bytes(server_id);
                tr.opt_time(*ref_time);
                match sml_version {
                    None => tr.tag(0x02),
                    Some(v) => tr.uint(*v as u64),
                }
            }
            RBody::Close { signature } => {
                tr.tag(0xB2);
                tr.opt_bytes(*signature);
            }
            RBody::GetList { client_id, server_id, list_name, act_sensor_time, vals, signature, act_gateway_time } => {
                tr.tag(0xB3);
                tr.opt_bytes(*client_id);
                tr.bytes(server_id);
                tr.opt_bytes(*list_name);
                tr.opt_time(*act_sensor_time);
                tr.tag(0x07);
                if tr.byte() as usize != vals.len() {
                    tr.ok = false;
                }
                for e in vals {
                    tr.tag(0xC0);
                    tr.bytes(e.obj_name);
                    match e.status {
                        None => tr.tag(0x02),
                        Some((c, v)) => {
                            let (w, x) = tr.uint_tok(0x03);
                            if class_of(w) != c || x != v {
                                tr.ok = false;
                            }
                        }
                    }
                    tr.opt_time(e.val_time);
                    match e.unit {
                        None => tr.tag(0x02),
                        Some(v) => tr.uint(v as u64),
                    }
                    match e.scaler {
                        None => tr.tag(0x02),
                        Some(v) => {
                            let (_, x) = tr.sint_tok();
                            if x != v as i64 {
                                tr.ok = false;
                            }
                        }
                    }
                    match &e.value {
                        RValue::Bool(b) => {
                            tr.tag(0x10);
                            tr.tag(0x06);
                            let off = tr.off();
                            if (tr.slice(off, 1)[0] != 0) != *b {
                                tr.ok = false;
                            }
                        }
                        RValue::Bytes(b) => {
                            tr.tag(0x11);
                            tr.bytes(b);
                        }
                        RValue::Int(c, v) => {
                            tr.tag(0x12);
                            let (w, x) = tr.sint_tok();
                            if class_of(w) != *c || x != *v {
                                tr.ok = false;
                            }
                        }
                        RValue::Uint(c, v) => {
                            tr.tag(0x13);
                            let (w, x) = tr.uint_tok(0x03);
                            if class_of(w) != *c || x != *v {
                                tr.ok = false;
                            }
                        }
                        RValue::ListTime(t) => {
                            tr.tag(0x14);
                            tr.opt_time(Some(*t));
                        }
                    }
                    tr.opt_bytes(e.signature);
                }
                tr.opt_bytes(*signature);
                tr.opt_time(*act_gateway_time);
            }
        }
    }
    tr.tag(0xFF);
}

/// Input: [k][k x (start u16, crc_at u16)][tlen u16][trace][file]. Checksums are recomputed, then BOTH parsers must return
/// exactly the content the generator's trace describes.
#[no_mangle]
pub extern "C" fn chk_gen_c03(p: *const u8, n: usize) -> u32 {
    let raw = unsafe { input(p, n) };
    if raw.is_empty() {
        return 0;
    }
    let k = raw[0] as usize;
    let h0 = 1 + 4 * k;
    if raw.len() < h0 + 2 {
        return 0;
    }
    let mut fix = Vec::with_capacity(k);
    let mut i = 0;
    while i < k {
        let o = 1 + 4 * i;
        fix.push(((raw[o] as usize) | ((raw[o + 1] as usize) << 8), (raw[o + 2] as usize) | ((raw[o + 3] as usize) << 8)));
        i += 1;
    }
    let tlen = raw[h0] as usize | ((raw[h0 + 1] as usize) << 8);
    let trace = &raw[h0 + 2..h0 + 2 + tlen];
    let mut buf = raw[h0 + 2 + tlen..].to_vec();
    fix_crcs(&mut buf, &fix);
    // allocating parser
    match complete::parse(&buf) {
        Ok(f) => {
            let msgs = conv_file(&f);
            let mut tr = Tr { t: trace, i: 0, f: &buf, ok: true };
            walk(&msgs, &mut tr);
            if !tr.ok {
                fail(311);
            }
        }
        Err(_) => fail(312),
    }
    // streaming parser
    let s = run_stream(&buf);
    if s.err.is_some() || s.open_list || !s.protocol_ok {
        fail(313);
    } else {
        let mut tr = Tr { t: trace, i: 0, f: &buf, ok: true };
        walk(&s.msgs, &mut tr);
        if !tr.ok {
            fail(314);
        }
    }
    cover(31);
    buf.len() as u32
}
