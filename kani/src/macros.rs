//! `assume!` / `check!` / `cover!` that work both under Kani and natively.

#[macro_export]
macro_rules! assume {
    ($c:expr) => {{
        #[cfg(kani)]
        kani::assume($c);
        #[cfg(not(kani))]
        if !($c) {
            return $crate::nd::Out::AssumeFail;
        }
    }};
}

#[macro_export]
macro_rules! check {
    ($c:expr, $m:expr) => {{
        #[cfg(kani)]
        assert!($c, $m);
        #[cfg(not(kani))]
        if !($c) {
            return $crate::nd::Out::Violated($m);
        }
    }};
}

#[macro_export]
macro_rules! cover {
    ($c:expr, $m:expr) => {{
        #[cfg(kani)]
        kani::cover!($c, $m);
        #[cfg(not(kani))]
        {
            let _ = $c;
        }
    }};
}

/// `proof!(kani_name, unwind, harness_fn)` — a `#[kani::proof]` wrapper for `harness_fn::<K>`.
#[macro_export]
macro_rules! proof {
    ($name:ident, $unwind:expr, $f:expr) => {
        #[cfg(kani)]
        #[kani::proof]
        #[kani::unwind($unwind)]
        fn $name() {
            let mut k = $crate::nd::K;
            let _ = $f(&mut k);
            // vacuity guard: the end of the harness must be reachable under its assumptions
            kani::cover!(true, "reach: end of harness");
        }
    };
}
