"""Engine E2 glue: build rustc's LLVM IR for /repo + /verif/drivers, validate the interpreter
against native runs, explore the registered checks with llsym, replay models natively."""
import glob, os, re, sys, json, time, multiprocessing as mp
from common import *

sys.path.insert(0, os.path.join(VERIF, 'llsym'))
DRV = os.path.join(VERIF, 'drivers')
LL_TARGET = os.path.join(BUILD, 'll-target')
NATIVE_TARGET = os.path.join(BUILD, 'drv-native-target')
LL_RUSTFLAGS = ('--emit=llvm-ir,link -Zshare-generics=no -C llvm-args=-vectorize-loops=false '
                '-C llvm-args=-vectorize-slp=false -C no-vectorize-loops -C no-vectorize-slp')
CRATES = ('sml_rs', 'crc', 'crc_catalog', 'smlverif_drivers')


class BuildError(Exception):
    pass


_ll_files = None
_validation = None


def ll_files():
    d = os.path.join(LL_TARGET, 'llsym', 'deps')
    out = []
    for c in CRATES:
        c_files = [f for f in glob.glob(os.path.join(d, c + '-*.ll')) if re.fullmatch(re.escape(c) + r'-[0-9a-f]{16}\.ll', os.path.basename(f))]
        if not c_files:
            raise BuildError('no LLVM IR for crate ' + c)
        out.append(max(c_files, key=os.path.getmtime))
    return out


def replay_bin(prof):
    return os.path.join(NATIVE_TARGET, prof, 'replay')


def prepare():
    global _ll_files
    os.makedirs(BUILD, exist_ok=True)
    lock = os.path.join(REPO, 'Cargo.lock')
    if os.path.exists(lock):
        import shutil
        shutil.copyfile(lock, os.path.join(DRV, 'Cargo.lock'))
    t_all = 0.0
    env = dict(ENV); env['RUSTFLAGS'] = LL_RUSTFLAGS
    t_mark = time.time() - 1
    rc, out, t = run(['cargo', '+nightly', 'build', '--offline', '--lib', '--profile', 'llsym', '--target-dir', LL_TARGET], cwd=DRV, timeout=1800, env=env)
    t_all += t
    if rc != 0:
        raise BuildError('LLVM IR build failed:\n' + out[-3000:])
    for prof in ('debug', 'release'):
        cmd = ['cargo', 'build', '--offline', '--bin', 'replay', '--target-dir', NATIVE_TARGET] + (['--release'] if prof == 'release' else [])
        rc, out, t = run(cmd, cwd=DRV, timeout=1800)
        t_all += t
        if rc != 0:
            raise BuildError('native replay build (%s) failed:\n%s' % (prof, out[-3000:]))
    _ll_files = ll_files()
    return t_all


# ----------------------------------------------------------------------------- native side
def native_run(fn, hexin, prof='debug', timeout=20, env_extra=None):
    """-> (kind, info): ('ok', ret, heap) | ('fail', code) | ('assume',) | ('abort', rc) | ('hang',)"""
    if len(hexin) > 100000:
        os.makedirs(os.path.join(BUILD, 'tmp'), exist_ok=True)
        path = os.path.join(BUILD, 'tmp', 'big_%d.hex' % os.getpid())
        open(path, 'w').write(hexin)
        rc, out, t = run([replay_bin(prof), fn, '@' + path], timeout=max(timeout, 120), env=dict(ENV, **(env_extra or {})))
    else:
        rc, out, t = run([replay_bin(prof), fn, hexin], timeout=timeout, env=dict(ENV, **(env_extra or {})))
    last = out.strip().splitlines()[-1] if out.strip() else ''
    if rc == 'timeout':
        return ('hang',)
    m = re.match(r'OK (\d+) heap=(\d+)', last)
    if m and rc == 0:
        return ('ok', int(m.group(1)), int(m.group(2)))
    m = re.match(r'FAIL (\d+)', last)
    if m:
        return ('fail', int(m.group(1)))
    if last.startswith('ASSUME-FAIL'):
        return ('assume',)
    return ('abort', rc, out.strip()[-300:])


def native_replay(fn, hexin, env_extra=None):
    return {prof: native_run(fn, hexin, prof, env_extra=env_extra) for prof in ('debug', 'release')}


def reproduced(rep):
    return any(v[0] in ('fail', 'abort', 'hang') for v in rep.values())


# ----------------------------------------------------------------------------- translator validation
def repo_vectors():
    """hex strings found in the repository's own unit tests (hex!("...") literals)"""
    vecs = []
    for rel in ('src/transport/decode.rs', 'src/transport/encode.rs', 'src/transport/decoder_reader.rs'):
        try:
            src = open(os.path.join(REPO, rel)).read()
        except OSError:
            continue
        for m in re.finditer(r'hex!\(\s*"([0-9a-fA-F\s]*)"\s*\)', src):
            h = re.sub(r'\s', '', m.group(1))
            if len(h) % 2 == 0:
                vecs.append(h.lower())
    seen = set(); out = []
    for v in vecs:
        if v not in seen:
            seen.add(v); out.append(v)
    return out


def corpus_payloads():
    rc, out, t = run([replay_bin('release'), '--corpus', os.path.join(REPO, 'tests', 'libsml-testing')], timeout=120)
    return [l.strip() for l in out.splitlines() if l.strip()] if rc == 0 else []


def validation_set(tier, seed):
    import random
    rnd = random.Random(seed)
    vs = []
    tv = repo_vectors()
    for h in tv:
        for fn in ('chk_agree', 'chk_tiling', 'chk_sound', 'chk_total'):
            vs.append((fn, h))
        if len(h) <= 20:
            vs.append(('chk_encode', h))
    cp = corpus_payloads()
    if tier == 'quick':
        cp = rnd.sample(cp, min(24, len(cp)))
    for h in cp:
        vs.append(('chk_parse_all', h))
        vs.append(('chk_stream_noalloc', h))
    # truncations / corruptions of a real payload (error paths)
    if cp:
        h = cp[0]
        for cut in (1, 7, 20, len(h) // 2 - 3):
            vs.append(('chk_parse_c04', h[:2 * cut]))
    return vs


def _validate_worker(args):
    files, items = args
    import explore
    explore.init_world(files)
    out = []
    for fn, h in items:
        spec = {'fn': fn, 'input': list(bytes.fromhex(h))}
        kind, info, steps = explore.run_concrete(spec)
        out.append((fn, h, kind, info if isinstance(info, int) else str(info), steps))
    return out


def validate(tier, seed):
    """Serval-style: run the repository's own vectors concretely through the IR interpreter and natively; any
    disagreement invalidates every E2 result of this run."""
    global _validation
    if _validation is not None:
        return _validation
    t0 = time.time()
    vs = validation_set(tier, seed)
    chunks = [vs[i::NCPU] for i in range(NCPU)]
    with mp.Pool(NCPU) as pool:
        res = sum(pool.map(_validate_worker, [(_ll_files, c) for c in chunks if c]), [])
    # native batch
    lines = ''.join('%s %s\n' % (fn, h) for fn, h, *_ in res)
    rc, out, t = run([replay_bin('debug'), '--batch'], stdin=lines, timeout=900)
    nat = out.strip().splitlines()
    mism = []
    if len(nat) != len(res):
        mism.append('native batch returned %d lines for %d vectors' % (len(nat), len(res)))
    steps = 0
    for (fn, h, kind, info, st), line in zip(res, nat):
        steps += st
        m = re.match(r'\S+ OK (\d+) heap=(\d+) status=0', line)
        if m:
            ok = kind == 'ok' and info == int(m.group(1))
        else:
            m = re.match(r'\S+ FAIL (\d+)', line)
            if m:
                ok = kind == 'fail' and int(info) == int(m.group(1))
            else:
                ok = kind in ('panic',)
        if not ok:
            mism.append('%s %s: interpreter=%s/%s native=%s' % (fn, h[:40], kind, info, line[:80]))
    _validation = {'vectors': len(res), 'mismatches': mism[:10], 'ir_steps': steps, 'wall_s': round(time.time() - t0, 1)}
    return _validation


# ----------------------------------------------------------------------------- running checks
def run_checks(specs, tier, seed):
    import explore
    val = validate(tier, seed)
    results = []
    if val['mismatches']:
        for sp in specs:
            results.append({'name': sp['name'], 'status': 'inconclusive', 'why': 'translator validation failed: ' + '; '.join(val['mismatches'][:3]), 'validation': val})
        return results
    def progress(k, agg):
        log('[E2] %-34s paths=%-7d steps=%-10d queries=%-7d %.1fs ends=%s' % (specs[k]['name'], agg['paths'], agg['steps'], agg['queries'], agg['wall_s'], dict(agg['ends'])))
    aggs = explore.explore_many(specs, _ll_files, NCPU, progress=progress)
    # stack-growth groups: the same check on inputs that differ only in the length of a concrete filler must reach the same
    # call depth; a depth that grows with the input length means stack use proportional to the stream length
    depth_by_group = {}
    for sp, agg in zip(specs, aggs):
        if sp.get('depth_group'):
            depth_by_group.setdefault(sp['depth_group'], []).append((len(sp['input']), agg.get('max_depth', 0), sp))
    grown = {}
    for gname, items in depth_by_group.items():
        items.sort(key=lambda t: t[0])
        if len(items) >= 2 and items[-1][1] > items[0][1]:
            grown[gname] = (items[0][1], items[-1][1])
    for sp, agg in zip(specs, aggs):
        r = {'name': sp['name'], 'fn': sp['fn'], 'wall_s': agg['wall_s'], 'paths': agg['paths'], 'ir_steps': agg['steps'],
             'solver_queries': agg['queries'], 'solver_s': round(agg['solver_s'], 2), 'ends': agg['ends'], 'covers': agg['covers'],
             'bounds': sp.get('bounds', ''), 'functions': [demangle(f) for f in agg['fns'] if 'sml_rs' in f or 'crc' in f][:60],
             'samples': agg['samples'], 'validation': val if not results else {'vectors': val['vectors'], 'mismatches': []}, 'violations': [],
             'traces_validated': val['vectors'] if not results else 0,
             'n_symbolic_bytes': sum(1 for c in sp['input'] if c == 'S' or isinstance(c, (list, tuple))), 'input_len': len(sp['input'])}
        incon = []
        if not agg['complete'] and not agg['violations']:
            incon.append('exploration incomplete after %ss (%d paths done, %d prefixes left)' % (agg['wall_s'], agg['paths'], agg['left']))
        if agg['ends'].get('unsupported'):
            incon.append('%d paths ended in unsupported IR / engine limits: %s' % (agg['ends']['unsupported'], '; '.join(agg['unsupported'][:2])))
        for c in sp.get('must_cover', []):
            if c not in agg['covers']:
                incon.append('vacuity: reachability witness %d never reached' % c)
        if agg['paths'] and not agg['ends'].get('ok') and not agg['violations']:
            incon.append('vacuity: no path reached the end of the check')
        groups = sp.get('report', ('fail', 'panic', 'budget'))
        seen = set()
        for v in agg['violations']:
            if v['input_hex'] is None:
                continue
            key = (v['kind'], str(v['info'])[:60])
            if key in seen:
                continue
            seen.add(key)
            rep = native_replay(sp['fn'], v['input_hex'], env_extra=({'LLSYM_ALLOC_FAIL_ABOVE': str(sp['alloc_fail_above'])} if sp.get('alloc_fail_above') is not None else None))
            r['traces_validated'] += 1
            v = dict(v, native={k: list(x) for k, x in rep.items()})
            if v['kind'] == 'oob':
                incon.append('UB-class report (triage by reading): %s input=%s native=%s' % (v['info'], v['input_hex'][:80], rep))
                continue
            if v['kind'] not in groups:
                incon.append('path ended in %s (%s), which this property does not judge; input=%s' % (v['kind'], v['info'], v['input_hex'][:80]))
                continue
            if reproduced(rep):
                what = {'fail': 'check failed with code %s' % v['info'], 'panic': 'panic: %s' % v['info'], 'budget': 'no termination within the step budget', 'alloc': 'allocation: %s' % v['info']}[v['kind']]
                r['violations'].append({'message': '%s: %s' % (sp['name'], what), 'input_hex': v['input_hex'], 'fn': sp['fn'], 'native': v['native'], 'kind': v['kind'], 'info': str(v['info']), 'alloc_fail_above': sp.get('alloc_fail_above')})
            else:
                incon.append('model did not reproduce natively: %s %s input=%s native=%s' % (v['kind'], v['info'], v['input_hex'][:80], rep))
        r['max_call_depth'] = agg.get('max_depth', 0)
        gname = sp.get('depth_group')
        if gname in grown and sp is depth_by_group[gname][-1][2]:
            lo, hi = grown[gname]
            big = '00' * sp['scale_input'][0] + sp['scale_input'][1]
            rep = native_replay(sp['fn'], big)
            r['traces_validated'] += 1
            if reproduced(rep):
                r['violations'].append({'message': '%s: call depth grows with the input length (%d -> %d IR frames): stack use proportional to the stream; the native run on a %d-byte stream aborts' % (sp['name'], lo, hi, len(big) // 2), 'input_hex': big[:200] + '...(%d bytes of filler)' % (len(big) // 2), 'fn': sp['fn'], 'native': {k: list(x)[:2] for k, x in rep.items()}, 'kind': 'budget', 'info': 'stack growth', 'scale_input': list(sp['scale_input'])})
            else:
                incon.append('call depth grows with the input length (%d -> %d) but the scaled native run did not abort: %s' % (lo, hi, {k: x[:2] for k, x in rep.items()}))
        r['status'] = 'fail' if r['violations'] else ('inconclusive' if incon else 'pass')
        if incon:
            r['why'] = ' | '.join(incon[:4])
        results.append(r)
        if r['status'] != 'pass':
            log('[E2] %-34s %s %s' % (sp['name'], r['status'], r.get('why', '')[:300] or [v['message'] for v in r['violations']][:2]))
    return results


def demangle(n):
    """readable approximation of a v0-mangled Rust name: the length-prefixed identifiers, in order"""
    out = []
    i = 0
    L = len(n)
    while i < L:
        if n[i].isdigit():
            j = i
            while j < L and n[j].isdigit(): j += 1
            k = int(n[i:j])
            if j < L and n[j] == '_': j += 1
            ident = n[j:j + k]
            if k > 0 and len(ident) == k and re.fullmatch(r'[A-Za-z_][A-Za-z0-9_]*', ident):
                if ident not in out[-1:]: out.append(ident)
                i = j + k
                continue
            i = j
        else:
            i += 1
    return '::'.join(out)[:140] or n[:80]
