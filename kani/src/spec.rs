//! Reference definitions written from the SML / Transport v1 prose, sharing no code with sml-rs.

/// CRC-16/X.25 register update with one byte (reflected, poly 0x8408). `reg` is the raw
/// register (initial value 0xffff); the checksum is `reg ^ 0xffff`.
pub fn crc_upd(mut reg: u16, b: u8) -> u16 {
    reg ^= b as u16;
    let mut i = 0;
    while i < 8 {
        reg = if reg & 1 != 0 { (reg >> 1) ^ 0x8408 } else { reg >> 1 };
        i += 1;
    }
    reg
}

/// checksum value → register
pub fn crc_reg(fin: u16) -> u16 {
    fin ^ 0xffff
}
/// register → checksum value
pub fn crc_fin(reg: u16) -> u16 {
    reg ^ 0xffff
}

pub const START: [u8; 8] = [0x1b, 0x1b, 0x1b, 0x1b, 0x01, 0x01, 0x01, 0x01];

/// CRC register after the start sequence.
pub fn crc_after_start() -> u16 {
    let mut r = 0xffffu16;
    let mut i = 0;
    while i < 8 {
        r = crc_upd(r, START[i]);
        i += 1;
    }
    r
}

/// Start-sequence matcher, by definition: the longest prefix of START that is a suffix of
/// START[..k] ‖ b (k < 8 bytes matched so far, next byte b).
pub fn spec_match(k: u8, b: u8) -> u8 {
    let k = k as usize;
    // candidate lengths from k+1 down to 1
    let mut cand = k + 1;
    while cand > 0 {
        // is START[..cand] a suffix of START[..k] ‖ b ?
        // the text has length k+1; suffix of length cand starts at k+1-cand
        let off = k + 1 - cand;
        let mut ok = true;
        let mut i = 0;
        while i < cand {
            let t = if off + i < k { START[off + i] } else { b };
            if t != START[i] {
                ok = false;
            }
            i += 1;
        }
        if ok {
            return cand as u8;
        }
        cand -= 1;
    }
    0
}

/// Type-length field by the SML rule: concatenated 4-bit groups (u64 accumulator), minus the
/// field's own size for non-list types. `None` = must be rejected.
/// Returns (bytes consumed, type bits, length).
pub fn spec_tlf(b: &[u8]) -> Option<(usize, u8, u32)> {
    if b.is_empty() {
        return None;
    }
    let ty = (b[0] >> 4) & 7;
    if !(ty == 0 || ty == 4 || ty == 5 || ty == 6 || ty == 7) {
        return None;
    }
    let mut more = b[0] & 0x80 != 0;
    if ty == 4 && more {
        return None;
    }
    let mut val: u64 = (b[0] & 0x0f) as u64;
    let mut n = 1usize;
    while more {
        if n >= b.len() {
            return None;
        }
        let x = b[n];
        if (x >> 4) & 7 != 0 {
            return None;
        }
        more = x & 0x80 != 0;
        val = (val << 4) | (x & 0x0f) as u64;
        if val > u32::MAX as u64 {
            return None;
        }
        n += 1;
    }
    if ty != 7 {
        if val < n as u64 {
            return None;
        }
        val -= n as u64;
    }
    Some((n, ty, val as u32))
}
