//! Reference SML reader: an independent, index-based reading of the SML grammar subset that
//! sml-rs supports (plus the documented vendor workaround for `Time`). Shares no code with
//! sml-rs. `None` everywhere means "not a well-formed file" (the reason is not part of C04).

#[derive(Clone, Copy, PartialEq, Eq, Debug)]
pub enum RTy {
    Octets,
    Bool,
    Int,
    Uint,
    List,
}

/// Type-length field by the SML rule: 4-bit groups concatenated (most significant first),
/// length includes the TL bytes themselves for non-list types.
pub fn tlf(x: &[u8], pos: &mut usize) -> Option<(RTy, u32)> {
    let b0 = *x.get(*pos)?;
    let ty = match (b0 >> 4) & 7 {
        0 => RTy::Octets,
        4 => RTy::Bool,
        5 => RTy::Int,
        6 => RTy::Uint,
        7 => RTy::List,
        _ => return None,
    };
    let mut more = b0 & 0x80 != 0;
    if ty == RTy::Bool && more {
        return None; // reserved
    }
    let mut val: u64 = (b0 & 0x0f) as u64;
    let mut n: u64 = 1;
    *pos += 1;
    while more {
        let b = *x.get(*pos)?;
        if (b >> 4) & 7 != 0 {
            return None;
        }
        more = b & 0x80 != 0;
        val = (val << 4) | (b & 0x0f) as u64;
        if val > 0xffff_ffff {
            return None;
        }
        n += 1;
        *pos += 1;
    }
    if ty != RTy::List {
        if val < n {
            return None;
        }
        val -= n;
    }
    Some((ty, val as u32))
}

pub fn take<'a>(x: &'a [u8], pos: &mut usize, n: usize) -> Option<&'a [u8]> {
    if x.len() - *pos < n {
        return None;
    }
    let r = &x[*pos..*pos + n];
    *pos += n;
    Some(r)
}

pub fn octets<'a>(x: &'a [u8], pos: &mut usize) -> Option<&'a [u8]> {
    let (ty, len) = tlf(x, pos)?;
    if ty != RTy::Octets {
        return None;
    }
    take(x, pos, len as usize)
}

/// is the optional marker (a single 0x01) at pos?
pub fn absent(x: &[u8], pos: &mut usize) -> bool {
    if *pos < x.len() && x[*pos] == 0x01 {
        *pos += 1;
        true
    } else {
        false
    }
}

pub fn opt_octets<'a>(x: &'a [u8], pos: &mut usize) -> Option<Option<&'a [u8]>> {
    if absent(x, pos) {
        return Some(None);
    }
    Some(Some(octets(x, pos)?))
}

/// big-endian unsigned of `width` bytes (1..=8)
pub fn be_u(b: &[u8]) -> u64 {
    let mut v = 0u64;
    for &c in b {
        v = (v << 8) | c as u64;
    }
    v
}

/// big-endian two's complement of 1..=8 bytes
pub fn be_i(b: &[u8]) -> i64 {
    let mut v: u64 = if b[0] & 0x80 != 0 { u64::MAX } else { 0 };
    for &c in b {
        v = (v << 8) | c as u64;
    }
    v as i64
}

/// unsigned integer that must fit `max` bytes
pub fn uint(x: &[u8], pos: &mut usize, max: usize) -> Option<u64> {
    let (ty, len) = tlf(x, pos)?;
    let len = len as usize;
    if ty != RTy::Uint || len == 0 || len > max {
        return None;
    }
    Some(be_u(take(x, pos, len)?))
}

pub fn sint(x: &[u8], pos: &mut usize, max: usize) -> Option<i64> {
    let (ty, len) = tlf(x, pos)?;
    let len = len as usize;
    if ty != RTy::Int || len == 0 || len > max {
        return None;
    }
    Some(be_i(take(x, pos, len)?))
}

/// SML_Time: list(2){ tag: u8 == 1 (secIndex), u32 } — or the vendor workaround: a bare
/// 4-byte unsigned (`65 xx xx xx xx`).
pub fn time(x: &[u8], pos: &mut usize) -> Option<u32> {
    let (ty, len) = tlf(x, pos)?;
    if ty == RTy::Uint && len == 4 {
        return Some(be_u(take(x, pos, 4)?) as u32);
    }
    if ty != RTy::List || len != 2 {
        return None;
    }
    let tag = uint(x, pos, 1)?;
    if tag != 1 {
        return None;
    }
    Some(uint(x, pos, 4)? as u32)
}

pub fn opt_time(x: &[u8], pos: &mut usize) -> Option<Option<u32>> {
    if absent(x, pos) {
        return Some(None);
    }
    Some(Some(time(x, pos)?))
}

#[derive(Clone, PartialEq, Eq, Debug)]
pub enum RValue<'a> {
    Bool(bool),
    Bytes(&'a [u8]),
    /// (width class in bytes: 1, 2, 4 or 8; value)
    Int(u8, i64),
    Uint(u8, u64),
    ListTime(u32),
}

pub fn width_class(len: usize) -> u8 {
    match len {
        1 => 1,
        2 => 2,
        3 | 4 => 4,
        _ => 8,
    }
}

pub fn value<'a>(x: &'a [u8], pos: &mut usize) -> Option<RValue<'a>> {
    let (ty, len) = tlf(x, pos)?;
    let l = len as usize;
    match ty {
        RTy::Bool => {
            if len != 1 {
                return None;
            }
            Some(RValue::Bool(take(x, pos, 1)?[0] != 0))
        }
        RTy::Octets => Some(RValue::Bytes(take(x, pos, l)?)),
        RTy::Int => {
            if l == 0 || l > 8 {
                return None;
            }
            Some(RValue::Int(width_class(l), be_i(take(x, pos, l)?)))
        }
        RTy::Uint => {
            if l == 0 || l > 8 {
                return None;
            }
            Some(RValue::Uint(width_class(l), be_u(take(x, pos, l)?)))
        }
        RTy::List => {
            // SML_ListType: choice, only the time variant (tag 1) is supported
            if len != 2 {
                return None;
            }
            let tag = uint(x, pos, 1)?;
            if tag != 1 {
                return None;
            }
            Some(RValue::ListTime(time(x, pos)?))
        }
    }
}

#[derive(Clone, PartialEq, Eq, Debug)]
pub struct REntry<'a> {
    pub obj_name: &'a [u8],
    /// (width class, value)
    pub status: Option<(u8, u64)>,
    pub val_time: Option<u32>,
    pub unit: Option<u8>,
    pub scaler: Option<i8>,
    pub value: RValue<'a>,
    pub signature: Option<&'a [u8]>,
}

pub fn entry<'a>(x: &'a [u8], pos: &mut usize) -> Option<REntry<'a>> {
    let (ty, len) = tlf(x, pos)?;
    if ty != RTy::List || len != 7 {
        return None;
    }
    let obj_name = octets(x, pos)?;
    let status = if absent(x, pos) {
        None
    } else {
        let (ty, len) = tlf(x, pos)?;
        let l = len as usize;
        if ty != RTy::Uint || l == 0 || l > 8 {
            return None;
        }
        Some((width_class(l), be_u(take(x, pos, l)?)))
    };
    let val_time = opt_time(x, pos)?;
    let unit = if absent(x, pos) { None } else { Some(uint(x, pos, 1)? as u8) };
    let scaler = if absent(x, pos) { None } else { Some(sint(x, pos, 1)? as i8) };
    let value = value(x, pos)?;
    let signature = opt_octets(x, pos)?;
    Some(REntry { obj_name, status, val_time, unit, scaler, value, signature })
}

#[derive(Clone, PartialEq, Eq, Debug)]
pub enum RBody<'a> {
    Open {
        codepage: Option<&'a [u8]>,
        client_id: Option<&'a [u8]>,
        req_file_id: &'a [u8],
        server_id: &'a [u8],
        ref_time: Option<u32>,
        sml_version: Option<u8>,
    },
    Close {
        signature: Option<&'a [u8]>,
    },
    GetList {
        client_id: Option<&'a [u8]>,
        server_id: &'a [u8],
        list_name: Option<&'a [u8]>,
        act_sensor_time: Option<u32>,
        vals: Vec<REntry<'a>>,
        signature: Option<&'a [u8]>,
        act_gateway_time: Option<u32>,
    },
}

#[derive(Clone, PartialEq, Eq, Debug)]
pub struct RMessage<'a> {
    pub transaction_id: &'a [u8],
    pub group_no: u8,
    pub abort_on_error: u8,
    pub body: RBody<'a>,
}

pub fn body<'a>(x: &'a [u8], pos: &mut usize) -> Option<RBody<'a>> {
    let (ty, len) = tlf(x, pos)?;
    if ty != RTy::List || len != 2 {
        return None;
    }
    let tag = uint(x, pos, 4)?;
    match tag {
        0x0101 => {
            let (ty, len) = tlf(x, pos)?;
            if ty != RTy::List || len != 6 {
                return None;
            }
            let codepage = opt_octets(x, pos)?;
            let client_id = opt_octets(x, pos)?;
            let req_file_id = octets(x, pos)?;
            let server_id = octets(x, pos)?;
            let ref_time = opt_time(x, pos)?;
            let sml_version = if absent(x, pos) { None } else { Some(uint(x, pos, 1)? as u8) };
            Some(RBody::Open { codepage, client_id, req_file_id, server_id, ref_time, sml_version })
        }
        0x0201 => {
            let (ty, len) = tlf(x, pos)?;
            if ty != RTy::List || len != 1 {
                return None;
            }
            let signature = opt_octets(x, pos)?;
            Some(RBody::Close { signature })
        }
        0x0701 => {
            let (ty, len) = tlf(x, pos)?;
            if ty != RTy::List || len != 7 {
                return None;
            }
            let client_id = opt_octets(x, pos)?;
            let server_id = octets(x, pos)?;
            let list_name = opt_octets(x, pos)?;
            let act_sensor_time = opt_time(x, pos)?;
            let (ty, n) = tlf(x, pos)?;
            if ty != RTy::List {
                return None;
            }
            // every entry needs at least one byte, so a declared count beyond the rest is malformed
            if n as usize > x.len() - *pos {
                return None;
            }
            let mut vals = Vec::new();
            let mut i = 0;
            while i < n {
                vals.push(entry(x, pos)?);
                i += 1;
            }
            let signature = opt_octets(x, pos)?;
            let act_gateway_time = opt_time(x, pos)?;
            Some(RBody::GetList { client_id, server_id, list_name, act_sensor_time, vals, signature, act_gateway_time })
        }
        _ => None,
    }
}

pub fn message<'a>(x: &'a [u8], pos: &mut usize) -> Option<RMessage<'a>> {
    let start = *pos;
    let (ty, len) = tlf(x, pos)?;
    if ty != RTy::List || len != 6 {
        return None;
    }
    let transaction_id = octets(x, pos)?;
    let group_no = uint(x, pos, 1)? as u8;
    let abort_on_error = uint(x, pos, 1)? as u8;
    let body = body(x, pos)?;
    let crc_covered = &x[start..*pos];
    let crc = uint(x, pos, 2)? as u16;
    // end of message
    if *take(x, pos, 1)?.first()? != 0x00 {
        return None;
    }
    // the checksum field holds CRC-16/X.25 of everything before it, transmitted low byte first
    // (i.e. read as a big-endian number it is the byte-swapped checksum)
    let c = crate::spec::crc16_x25(crc_covered);
    let expect = (c << 8) | (c >> 8);
    if crc != expect {
        return None;
    }
    Some(RMessage { transaction_id, group_no, abort_on_error, body })
}

/// A file is a sequence of messages that exhausts the input.
pub fn file(x: &[u8]) -> Option<Vec<RMessage<'_>>> {
    let mut pos = 0usize;
    let mut msgs = Vec::new();
    while pos < x.len() {
        msgs.push(message(x, &mut pos)?);
    }
    Some(msgs)
}
