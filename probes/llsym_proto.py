#!/usr/bin/env python3
"""Feasibility prototype: symbolic executor for rustc-emitted LLVM IR (subset).
Values: python int (concrete) or z3 BitVecRef. Pointers are 64-bit ints (addresses)."""
import re, sys, glob, time
import z3

# ----------------------------------------------------------------------------- tokenizer
TOK = re.compile(r'''
   (?P<str>c"(?:[^"\\]|\\[0-9A-Fa-f]{2}|\\\\)*")
 | (?P<gid>@"[^"]*"|@[\w.$\-]+)
 | (?P<lid>%"[^"]*"|%[\w.$\-]+)
 | (?P<meta>![\w.]*(?:\([^)]*\))?)
 | (?P<attr>\#\d+)
 | (?P<num>-?\d+)
 | (?P<id>[A-Za-z_][\w.]*)
 | (?P<punct>\.\.\.|<\{|\}>|[(){}\[\]<>,=*:])
''', re.X)

def tokenize(s):
    out = []
    pos = 0
    n = len(s)
    while pos < n:
        c = s[pos]
        if c in ' \t\n': pos += 1; continue
        if c == ';': break
        m = TOK.match(s, pos)
        if not m: raise SyntaxError('tok: ' + s[pos:pos+40])
        out.append(m.group(0)); pos = m.end()
    return out

# ----------------------------------------------------------------------------- types
class Ty: pass
class IntTy(Ty):
    def __init__(s, bits): s.bits = bits
    def __repr__(s): return 'i%d' % s.bits
class PtrTy(Ty):
    def __repr__(s): return 'ptr'
class VoidTy(Ty):
    def __repr__(s): return 'void'
class ArrTy(Ty):
    def __init__(s, n, el): s.n = n; s.el = el
    def __repr__(s): return '[%d x %r]' % (s.n, s.el)
class StructTy(Ty):
    def __init__(s, els, packed=False): s.els = els; s.packed = packed
    def __repr__(s): return '{%s}' % ','.join(map(repr, s.els))
class NamedTy(Ty):
    def __init__(s, name): s.name = name
    def __repr__(s): return s.name
PTR = PtrTy(); VOID = VoidTy()

class Module:
    def __init__(s):
        s.types = {}; s.globals = {}; s.funcs = {}; s.decls = set()

class P:
    """token stream parser"""
    def __init__(s, toks, mod): s.t = toks; s.i = 0; s.mod = mod
    def peek(s): return s.t[s.i] if s.i < len(s.t) else None
    def next(s): x = s.t[s.i]; s.i += 1; return x
    def accept(s, x):
        if s.peek() == x: s.i += 1; return True
        return False
    def expect(s, x):
        y = s.next()
        if y != x: raise SyntaxError('expected %r got %r in %r' % (x, y, ' '.join(s.t[:40])))
    def ty(s):
        t = s.next()
        if t == 'ptr': r = PTR
        elif t == 'void': r = VOID
        elif re.fullmatch(r'i\d+', t): r = IntTy(int(t[1:]))
        elif t == '[':
            n = int(s.next()); s.expect('x'); el = s.ty(); s.expect(']'); r = ArrTy(n, el)
        elif t == '{' or t == '<{':
            els = []
            close = '}' if t == '{' else '}>'
            if not s.accept(close):
                while True:
                    els.append(s.ty())
                    if s.accept(close): break
                    s.expect(',')
            r = StructTy(els, packed=(t == '<{'))
        elif t.startswith('%'): r = NamedTy(t)
        else: raise SyntaxError('type? %r in %r' % (t, ' '.join(s.t[:30])))
        return r

def resolve(mod, t):
    while isinstance(t, NamedTy): t = mod.types[t.name]
    return t
def align_of(mod, t):
    t = resolve(mod, t)
    if isinstance(t, IntTy): return min(max(1, (t.bits + 7) // 8), 16) if t.bits not in (1,) else 1
    if isinstance(t, PtrTy): return 8
    if isinstance(t, ArrTy): return align_of(mod, t.el)
    if isinstance(t, StructTy):
        if t.packed: return 1
        return max([align_of(mod, e) for e in t.els] or [1])
    raise TypeError(t)
def size_of(mod, t):
    t = resolve(mod, t)
    if isinstance(t, IntTy):
        b = (t.bits + 7) // 8
        a = align_of(mod, t)
        return (b + a - 1) // a * a
    if isinstance(t, PtrTy): return 8
    if isinstance(t, ArrTy): return t.n * size_of(mod, t.el)
    if isinstance(t, StructTy):
        off = 0
        for e in t.els:
            if not t.packed:
                a = align_of(mod, e); off = (off + a - 1) // a * a
            off += size_of(mod, e)
        if not t.packed:
            a = align_of(mod, t); off = (off + a - 1) // a * a
        return off
    raise TypeError(t)
def field_off(mod, t, idx):
    t = resolve(mod, t)
    off = 0
    for k, e in enumerate(t.els):
        if not t.packed:
            a = align_of(mod, e); off = (off + a - 1) // a * a
        if k == idx: return off
        off += size_of(mod, e)
    raise IndexError

# ----------------------------------------------------------------------------- module parsing
ATTR_WORDS = set('''noundef nonnull noalias nocapture readonly readnone writeonly zeroext signext inreg returned
 nofree nosync nounwind willreturn immarg allocptr allocalign nonlazybind uwtable mustprogress dead_on_unwind writable
 dead_on_return nuw nsw exact inbounds disjoint samesign nneg volatile tail musttail notail fastcc ccc coldcc
 internal private hidden dso_local local_unnamed_addr unnamed_addr external available_externally linkonce_odr weak_odr weak
 constant global thread_local protected default swifterror nest cold noinline inlinehint alwaysinline norecurse'''.split())

def skip_attrs(p):
    """skip parameter/return attributes"""
    while True:
        t = p.peek()
        if t is None: return
        if t in ATTR_WORDS: p.next(); continue
        if t in ('align',):
            p.next(); p.next(); continue
        if t in ('dereferenceable', 'dereferenceable_or_null', 'captures', 'sret', 'byval', 'range', 'memory', 'initializes', 'nofpclass', 'elementtype', 'allocsize', 'byref', 'preallocated', 'inalloca'):
            p.next()
            if p.peek() == '(':
                depth = 0
                while True:
                    x = p.next()
                    if x == '(': depth += 1
                    elif x == ')':
                        depth -= 1
                        if depth == 0: break
            continue
        return

class Func:
    def __init__(s, name, ret, params): s.name = name; s.ret = ret; s.params = params; s.blocks = {}; s.order = []

def parse_module(path, mod):
    lines = open(path).read().split('\n')
    i = 0
    n = len(lines)
    while i < n:
        ln = lines[i]
        if ln.startswith('%') and ' = type ' in ln:
            toks = tokenize(ln); p = P(toks, mod)
            name = p.next(); p.expect('='); p.expect('type')
            if p.peek() == 'opaque': mod.types[name] = StructTy([])
            else: mod.types[name] = p.ty()
        elif ln.startswith('@'):
            toks = tokenize(ln); p = P(toks, mod)
            name = p.next(); p.expect('=')
            skip_attrs(p)
            ty = p.ty()
            init = parse_const(p, ty) if p.peek() not in (',', None) else None
            if name not in mod.globals or mod.globals[name][1] is None: mod.globals[name] = (ty, init)
        elif ln.startswith('declare'):
            m = re.search(r'(@"[^"]*"|@[\w.$\-]+)\(', ln)
            mod.decls.add(m.group(1))
        elif ln.startswith('define'):
            toks = tokenize(ln[:ln.rindex('{')]); p = P(toks, mod)
            p.expect('define'); skip_attrs(p)
            ret = p.ty(); name = p.next(); p.expect('(')
            params = []
            if not p.accept(')'):
                while True:
                    if p.peek() == '...': p.next()
                    else:
                        t = p.ty(); skip_attrs(p)
                        params.append((t, p.next()))
                    if p.accept(')'): break
                    p.expect(',')
            f = Func(name, ret, params)
            i += 1
            cur = None
            while not lines[i].startswith('}'):
                l = lines[i]; i += 1
                s = l.strip()
                if not s or s.startswith(';'): continue
                m = re.match(r'^("[^"]*"|[\w.$\-]+):', l)
                if m and not l.startswith(' '):
                    cur = m.group(1).strip('"'); f.blocks[cur] = []; f.order.append(cur); continue
                if s.startswith('switch') and s.endswith('['):
                    while not lines[i].strip().startswith(']'):
                        s += ' ' + lines[i].strip(); i += 1
                    s += ' ]'; i += 1
                f.blocks[cur].append(s)
            if name not in mod.funcs or True:
                mod.funcs[name] = f
        i += 1

# constants: represented as ('int', ty, v) | ('bytes', bytes) | ('struct', [consts]) | ('array', [consts]) | ('zero', ty) | ('gref', name, off) | ('undef', ty)
def parse_const(p, ty):
    t = p.peek()
    rt = resolve(p.mod, ty)
    if t.startswith('c"'):
        p.next(); return ('bytes', cstr(t))
    if t == 'zeroinitializer': p.next(); return ('zero', ty)
    if t in ('undef', 'poison'): p.next(); return ('undef', ty)
    if t == 'null': p.next(); return ('int', ty, 0)
    if t in ('true', 'false'): p.next(); return ('int', ty, 1 if t == 'true' else 0)
    if t.startswith('@'): p.next(); return ('gref', t, 0)
    if re.fullmatch(r'-?\d+', t): p.next(); return ('int', ty, int(t))
    if t in ('{', '<{'):
        p.next(); close = '}' if t == '{' else '}>'
        els = []
        if not p.accept(close):
            while True:
                et = p.ty(); els.append((et, parse_const(p, et)))
                if p.accept(close): break
                p.expect(',')
        return ('struct', els, t == '<{')
    if t == '[':
        p.next(); els = []
        while True:
            et = p.ty(); els.append((et, parse_const(p, et)))
            if p.accept(']'): break
            p.expect(',')
        return ('array', els)
    if t == 'getelementptr':
        p.next(); skip_attrs(p); p.expect('(')
        bt = p.ty(); p.expect(','); pt = p.ty(); base = parse_const(p, pt)
        idxs = []
        while p.accept(','):
            it = p.ty(); idxs.append(parse_const(p, it)[2])
        p.expect(')')
        off = gep_offset_const(p.mod, bt, idxs)
        assert base[0] == 'gref'
        return ('gref', base[1], base[2] + off)
    if t == 'inttoptr':
        p.next(); p.expect('('); it = p.ty(); c = parse_const(p, it); p.expect('to'); p.ty(); p.expect(')')
        return ('int', ty, c[2])
    if t == 'ptrtoint':
        p.next(); p.expect('('); it = p.ty(); c = parse_const(p, it); p.expect('to'); p.ty(); p.expect(')')
        return c
    raise SyntaxError('const? %r  %r' % (t, ' '.join(p.t[max(0,p.i-5):p.i+10])))

def cstr(tok):
    s = tok[2:-1]; out = bytearray(); i = 0
    while i < len(s):
        if s[i] == '\\':
            if s[i+1] == '\\': out.append(92); i += 2
            else: out.append(int(s[i+1:i+3], 16)); i += 3
        else: out.append(ord(s[i])); i += 1
    return bytes(out)

def gep_offset_const(mod, bt, idxs):
    off = idxs[0] * size_of(mod, bt); t = bt
    for ix in idxs[1:]:
        t = resolve(mod, t)
        if isinstance(t, StructTy): off += field_off(mod, t, ix); t = t.els[ix]
        else: off += ix * size_of(mod, t.el); t = t.el
    return off

# ----------------------------------------------------------------------------- values / memory
def mask(v, bits): return v & ((1 << bits) - 1)
def is_sym(v): return not isinstance(v, int)
def bv(v, bits): return z3.BitVecVal(v, bits) if isinstance(v, int) else v
def sx(v, bits): return v - (1 << bits) if v >> (bits - 1) else v

class Panic(Exception): pass
class Unsupported(Exception): pass

class Mem:
    def __init__(s):
        s.objs = {}     # base -> [cells list, size, name, writable]
        s.bases = []
        s.next = 0x10000
    def alloc(s, size, name='', cells=None):
        base = s.next
        s.next += ((size + 0xfff) // 0x1000 + 1) * 0x1000
        s.objs[base] = [cells if cells is not None else [None] * size, size, name]
        s.bases.append(base)
        return base
    def find(s, addr):
        # linear from end (few objects) - prototype
        import bisect
        k = bisect.bisect_right(s.bases, addr) - 1
        if k < 0: raise Panic('bad pointer %x' % addr)
        base = s.bases[k]; o = s.objs.get(base)
        if o is None or addr - base > o[1]: raise Panic('OOB/dangling pointer %x (obj %s)' % (addr, o and o[2]))
        return base, o
    def free(s, base):
        del s.objs[base]
        s.bases.remove(base)

class State:
    def __init__(s, mod):
        s.mod = mod; s.mem = Mem(); s.gaddr = {}; s.pc = []; s.steps = 0
        s.solver = z3.Solver()

def init_globals(st):
    mod = st.mod
    for name, (ty, init) in mod.globals.items():
        st.gaddr[name] = st.mem.alloc(size_of(mod, ty), name)
    for name in mod.funcs: st.gaddr.setdefault(name, st.mem.alloc(1, 'fn:' + name))
    for name in mod.decls: st.gaddr.setdefault(name, st.mem.alloc(1, 'fn:' + name))
    for name, (ty, init) in mod.globals.items():
        if init is None: continue
        base = st.gaddr[name]
        write_const(st, base, ty, init)

def write_const(st, addr, ty, c):
    mod = st.mod
    k = c[0]
    if k == 'bytes':
        store_bytes(st, addr, list(c[1]))
    elif k == 'zero':
        store_bytes(st, addr, [0] * size_of(mod, ty))
    elif k == 'undef': pass
    elif k == 'int':
        n = size_of(mod, ty); store_bytes(st, addr, list(mask(c[2], 8 * n).to_bytes(n, 'little')))
    elif k == 'gref':
        a = st.gaddr[c[1]] + c[2]; store_bytes(st, addr, list(a.to_bytes(8, 'little')))
    elif k == 'struct':
        sty = StructTy([e[0] for e in c[1]], c[2])
        for i, (et, ec) in enumerate(c[1]): write_const(st, addr + field_off(mod, sty, i), et, ec)
    elif k == 'array':
        off = 0
        for et, ec in c[1]: write_const(st, addr + off, et, ec); off += size_of(mod, et)
    else: raise Unsupported(k)

def store_bytes(st, addr, cells):
    base, o = st.mem.find(addr)
    off = addr - base
    if off + len(cells) > o[1]: raise Panic('store OOB in %s' % o[2])
    o[0][off:off + len(cells)] = cells

def load_int(st, addr, nbytes):
    if is_sym(addr): return load_sym(st, addr, nbytes)
    base, o = st.mem.find(addr)
    off = addr - base
    if off + nbytes > o[1]: raise Panic('load OOB in %s' % o[2])
    cells = o[0][off:off + nbytes]
    if all(isinstance(c, int) for c in cells):
        return int.from_bytes(bytes(cells), 'little')
    if any(c is None for c in cells):
        if all(c is None for c in cells): return None      # undef
        cells = [0 if c is None else c for c in cells]
    parts = [bv(c, 8) for c in reversed(cells)]
    return z3.simplify(z3.Concat(*parts)) if len(parts) > 1 else parts[0]

def split_sym_addr(st, addr):
    """addr = const + sym ; returns (base_obj_addr, offset_expr)"""
    addr = z3.simplify(addr)
    const = 0; rest = []
    def walk(e):
        nonlocal const
        if z3.is_bv_value(e): const += e.as_long()
        elif e.decl().kind() == z3.Z3_OP_BADD:
            for c in e.children(): walk(c)
        else: rest.append(e)
    walk(addr)
    base, o = st.mem.find(mask(const, 64))
    off0 = mask(const, 64) - base
    offe = z3.BitVecVal(off0, 64)
    for r in rest: offe = offe + r
    return base, o, z3.simplify(offe)

def load_sym(st, addr, nbytes):
    base, o, offe = split_sym_addr(st, addr)
    # in-bounds check
    size = o[1]
    if st.check(z3.UGT(offe, size - nbytes)): raise Panic('symbolic load may be OOB in %s' % o[2])
    res = []
    for k in range(nbytes):
        e = None
        for i in range(size - 1, -1, -1):
            c = o[0][i]
            c = bv(0 if c is None else c, 8)
            e = c if e is None else z3.If(offe + k == i, c, e)
        res.append(e)
    return z3.simplify(z3.Concat(*reversed(res))) if nbytes > 1 else z3.simplify(res[0])

def store_int(st, addr, nbytes, v):
    if is_sym(addr): raise Unsupported('symbolic store address')
    if v is None: cells = [None] * nbytes
    elif isinstance(v, int): cells = list(mask(v, 8 * nbytes).to_bytes(nbytes, 'little'))
    else:
        if v.size() < 8 * nbytes: v = z3.ZeroExt(8 * nbytes - v.size(), v)
        cells = []
        for k in range(nbytes):
            c = z3.simplify(z3.Extract(8 * k + 7, 8 * k, v))
            cells.append(c.as_long() if z3.is_bv_value(c) else c)
    store_bytes(st, addr, cells)

# ----------------------------------------------------------------------------- interpreter
BIN = {'add','sub','mul','and','or','xor','shl','lshr','ashr','udiv','urem','sdiv','srem'}

def State_check(st, cond):
    st.solver.push()
    for c in st.pc: st.solver.add(c)
    st.solver.add(cond)
    r = st.solver.check()
    st.solver.pop()
    return r == z3.sat
State.check = State_check

class Frame:
    def __init__(s, f): s.f = f; s.regs = {}; s.allocas = []

def operand(st, fr, p, ty):
    t = p.next()
    rt = resolve(st.mod, ty)
    if t.startswith('%'):
        return fr.regs[t]
    if t.startswith('@'): return st.gaddr[t]
    if re.fullmatch(r'-?\d+', t): return mask(int(t), rt.bits)
    if t == 'true': return 1
    if t == 'false': return 0
    if t == 'null': return 0
    if t in ('undef', 'poison'):
        return None if not isinstance(rt, (StructTy, ArrTy)) else undef_agg(st, rt)
    if t == 'zeroinitializer': return zero_agg(st, rt)
    if t in ('{', '<{', '[', 'getelementptr', 'inttoptr', 'ptrtoint'):
        p.i -= 1
        c = parse_const(p, ty)
        return const_val(st, ty, c)
    raise Unsupported('operand %r' % t)

def zero_agg(st, rt):
    rt = resolve(st.mod, rt)
    if isinstance(rt, StructTy): return [zero_agg(st, e) for e in rt.els]
    if isinstance(rt, ArrTy): return [zero_agg(st, rt.el) for _ in range(rt.n)]
    return 0
def undef_agg(st, rt):
    rt = resolve(st.mod, rt)
    if isinstance(rt, StructTy): return [undef_agg(st, e) for e in rt.els]
    if isinstance(rt, ArrTy): return [undef_agg(st, rt.el) for _ in range(rt.n)]
    return None
def const_val(st, ty, c):
    if c[0] == 'int': return mask(c[2], 64 if isinstance(resolve(st.mod, ty), PtrTy) else resolve(st.mod, ty).bits)
    if c[0] == 'gref': return st.gaddr[c[1]] + c[2]
    if c[0] == 'struct': return [const_val(st, et, ec) for et, ec in c[1]]
    if c[0] == 'undef': return undef_agg(st, ty)
    if c[0] == 'zero': return zero_agg(st, ty)
    raise Unsupported('const_val %r' % (c[0],))

def bits_of(st, ty):
    rt = resolve(st.mod, ty)
    return 64 if isinstance(rt, PtrTy) else rt.bits

def binop(op, a, b, bits):
    if a is None or b is None: return None
    if isinstance(a, int) and isinstance(b, int):
        if op == 'add': return mask(a + b, bits)
        if op == 'sub': return mask(a - b, bits)
        if op == 'mul': return mask(a * b, bits)
        if op == 'and': return a & b
        if op == 'or': return a | b
        if op == 'xor': return a ^ b
        if op == 'shl': return mask(a << b, bits) if b < bits else None
        if op == 'lshr': return a >> b if b < bits else None
        if op == 'ashr': return mask(sx(a, bits) >> b, bits) if b < bits else None
        if op == 'udiv': return a // b
        if op == 'urem': return a % b
        raise Unsupported(op)
    a = bv(a, bits); b = bv(b, bits)
    r = {'add': lambda: a + b, 'sub': lambda: a - b, 'mul': lambda: a * b, 'and': lambda: a & b, 'or': lambda: a | b,
         'xor': lambda: a ^ b, 'shl': lambda: a << b, 'lshr': lambda: z3.LShR(a, b), 'ashr': lambda: a >> b,
         'udiv': lambda: z3.UDiv(a, b), 'urem': lambda: z3.URem(a, b)}[op]()
    r = z3.simplify(r)
    return r.as_long() if z3.is_bv_value(r) else r

def icmp(pred, a, b, bits):
    if a is None or b is None: return None
    if isinstance(a, int) and isinstance(b, int):
        sa, sb = sx(a, bits), sx(b, bits)
        return int({'eq': a == b, 'ne': a != b, 'ult': a < b, 'ule': a <= b, 'ugt': a > b, 'uge': a >= b,
                    'slt': sa < sb, 'sle': sa <= sb, 'sgt': sa > sb, 'sge': sa >= sb}[pred])
    a = bv(a, bits); b = bv(b, bits)
    c = {'eq': lambda: a == b, 'ne': lambda: a != b, 'ult': lambda: z3.ULT(a, b), 'ule': lambda: z3.ULE(a, b),
         'ugt': lambda: z3.UGT(a, b), 'uge': lambda: z3.UGE(a, b), 'slt': lambda: a < b, 'sle': lambda: a <= b,
         'sgt': lambda: a > b, 'sge': lambda: a >= b}[pred]()
    c = z3.simplify(c)
    if z3.is_true(c): return 1
    if z3.is_false(c): return 0
    return z3.If(c, z3.BitVecVal(1, 1), z3.BitVecVal(0, 1))

def as_cond(v):
    """i1 value -> z3 Bool"""
    return z3.simplify(v == 1)

class Fork(Exception):
    def __init__(s, cond): s.cond = cond

def run_function(st, name, args, decide):
    """execute function to completion; `decide(cond)` resolves symbolic branches -> bool"""
    mod = st.mod
    f = mod.funcs.get(name)
    if f is None: return call_external(st, name, args, decide)
    fr = Frame(f)
    for (t, n), a in zip(f.params, args): fr.regs[n] = a
    cur = f.order[0]; prev = None
    try:
        while True:
            insts = f.blocks[cur]
            # phis evaluated simultaneously
            k = 0; newvals = {}
            while k < len(insts) and ' = phi ' in insts[k]:
                p = P(cache_tok(insts[k]), mod)
                dst = p.next(); p.expect('='); p.expect('phi'); ty = p.ty()
                val = None; found = False
                while True:
                    p.expect('[')
                    save = p.i
                    # find label first
                    depth = 0; j = p.i
                    # operand may be complex constant: parse lazily only if label matches
                    # locate matching ']'
                    jj = j
                    while not (p.t[jj] == ']' and depth == 0):
                        if p.t[jj] in ('[',): depth += 1
                        elif p.t[jj] == ']': depth -= 1
                        jj += 1
                    label = p.t[jj - 1].lstrip('%').strip('"')
                    if label == prev:
                        val = operand(st, fr, p, ty); found = True
                    p.i = jj + 1
                    if not p.accept(','): break
                if not found: raise Unsupported('phi no pred %s in %s' % (prev, cur))
                newvals[dst] = val; k += 1
            fr.regs.update(newvals)
            nxt = None
            for s in insts[k:]:
                st.steps += 1
                r = step(st, fr, s, decide)
                if r is not None:
                    if r[0] == 'br': nxt = r[1]; break
                    if r[0] == 'ret': return r[1]
            prev, cur = cur, nxt
    finally:
        for a in fr.allocas: st.mem.free(a)

_tokcache = {}
def cache_tok(s):
    t = _tokcache.get(s)
    if t is None: t = _tokcache[s] = tokenize(s)
    return t

def step(st, fr, s, decide):
    mod = st.mod
    p = P(cache_tok(s), mod)
    t = p.next()
    dst = None
    if t.startswith('%') and p.peek() == '=':
        dst = t; p.next(); t = p.next()
    if t in ('tail', 'musttail', 'notail'): t = p.next()
    if t == 'br':
        if p.accept('label'): return ('br', p.next().lstrip('%').strip('"'))
        p.expect('i1'); c = operand(st, fr, p, IntTy(1)); p.expect(','); p.expect('label'); a = p.next(); p.expect(','); p.expect('label'); b = p.next()
        if is_sym(c): c = 1 if decide(as_cond(c)) else 0
        if c is None: raise Panic('branch on undef')
        return ('br', (a if c else b).lstrip('%').strip('"'))
    if t == 'ret':
        ty = p.ty()
        if isinstance(ty, VoidTy): return ('ret', None)
        return ('ret', operand(st, fr, p, ty))
    if t == 'unreachable': raise Panic('unreachable executed')
    if t == 'switch':
        ty = p.ty(); v = operand(st, fr, p, ty); p.expect(','); p.expect('label'); default = p.next(); p.expect('[')
        bits = bits_of(st, ty)
        while not p.accept(']'):
            p.ty(); c = mask(int(p.next()), bits); p.expect(','); p.expect('label'); lab = p.next()
            if is_sym(v):
                if decide(z3.simplify(v == c)): return ('br', lab.lstrip('%').strip('"'))
            elif v == c: return ('br', lab.lstrip('%').strip('"'))
        return ('br', default.lstrip('%').strip('"'))
    if t == 'store':
        skip_attrs(p); ty = p.ty(); v = operand(st, fr, p, ty); p.expect(','); p.expect('ptr'); a = operand(st, fr, p, PTR)
        store_val(st, a, ty, v); return None
    if t == 'load':
        skip_attrs(p); ty = p.ty(); p.expect(','); p.expect('ptr'); a = operand(st, fr, p, PTR)
        fr.regs[dst] = load_val(st, a, ty); return None
    if t == 'alloca':
        ty = p.ty(); n = size_of(mod, ty)
        a = st.mem.alloc(n, 'alloca ' + dst); fr.allocas.append(a); fr.regs[dst] = a; return None
    if t == 'getelementptr':
        skip_attrs(p); bt = p.ty(); p.expect(','); p.expect('ptr'); base = operand(st, fr, p, PTR)
        off = 0; cur = bt; first = True
        while p.accept(','):
            skip_attrs(p); it = p.ty(); ix = operand(st, fr, p, it)
            ib = bits_of(st, it)
            if first:
                sz = size_of(mod, cur); first = False
            else:
                rc = resolve(mod, cur)
                if isinstance(rc, StructTy):
                    off = binop('add', off, field_off(mod, rc, ix), 64); cur = rc.els[ix]; continue
                cur = rc.el; sz = size_of(mod, cur)
            if isinstance(ix, int): ix = mask(sx(ix, ib), 64)
            else: ix = z3.SignExt(64 - ib, ix) if ib < 64 else ix
            off = binop('add', off, binop('mul', ix, sz, 64), 64)
        fr.regs[dst] = binop('add', base, off, 64); return None
    if t in BIN:
        skip_attrs(p); ty = p.ty(); a = operand(st, fr, p, ty); p.expect(','); b = operand(st, fr, p, ty)
        fr.regs[dst] = binop(t, a, b, bits_of(st, ty)); return None
    if t == 'icmp':
        skip_attrs(p); pred = p.next(); ty = p.ty(); a = operand(st, fr, p, ty); p.expect(','); b = operand(st, fr, p, ty)
        fr.regs[dst] = icmp(pred, a, b, bits_of(st, ty)); return None
    if t in ('zext', 'sext', 'trunc', 'ptrtoint', 'inttoptr', 'bitcast', 'freeze'):
        skip_attrs(p); ty = p.ty(); v = operand(st, fr, p, ty)
        if t == 'freeze': fr.regs[dst] = 0 if v is None else v; return None
        p.expect('to'); ty2 = p.ty(); b1 = bits_of(st, ty); b2 = bits_of(st, ty2)
        if v is None: fr.regs[dst] = None
        elif isinstance(v, int):
            fr.regs[dst] = mask(sx(v, b1), b2) if t == 'sext' else mask(v, b2)
        else:
            if b2 > b1: r = z3.SignExt(b2 - b1, v) if t == 'sext' else z3.ZeroExt(b2 - b1, v)
            elif b2 < b1: r = z3.Extract(b2 - 1, 0, v)
            else: r = v
            r = z3.simplify(r); fr.regs[dst] = r.as_long() if z3.is_bv_value(r) else r
        return None
    if t == 'select':
        skip_attrs(p); p.expect('i1'); c = operand(st, fr, p, IntTy(1)); p.expect(','); ty = p.ty(); a = operand(st, fr, p, ty); p.expect(','); p.ty(); b = operand(st, fr, p, ty)
        if is_sym(c):
            if isinstance(a, list): raise Unsupported('select agg sym')
            bits = bits_of(st, ty)
            r = z3.simplify(z3.If(as_cond(c), bv(0 if a is None else a, bits), bv(0 if b is None else b, bits)))
            fr.regs[dst] = r.as_long() if z3.is_bv_value(r) else r
        else: fr.regs[dst] = a if c else b
        return None
    if t == 'extractvalue':
        ty = p.ty(); v = operand(st, fr, p, ty)
        while p.accept(','): v = v[int(p.next())]
        fr.regs[dst] = v; return None
    if t == 'insertvalue':
        ty = p.ty(); v = operand(st, fr, p, ty); p.expect(','); ty2 = p.ty(); e = operand(st, fr, p, ty2)
        idx = []
        while p.accept(','): idx.append(int(p.next()))
        def ins(agg, idx):
            agg = list(agg)
            if len(idx) == 1: agg[idx[0]] = e
            else: agg[idx[0]] = ins(agg[idx[0]], idx[1:])
            return agg
        fr.regs[dst] = ins(v, idx); return None
    if t == 'call':
        skip_attrs(p); rty = p.ty(); callee = p.next(); p.expect('(')
        args = []
        if not p.accept(')'):
            while True:
                if p.peek().startswith('!') or p.peek() == 'metadata':
                    # metadata arg
                    while p.peek() not in (',', ')'): p.next()
                    args.append(None)
                else:
                    aty = p.ty(); skip_attrs(p); args.append(operand(st, fr, p, aty))
                if p.accept(')'): break
                p.expect(',')
        if callee.startswith('%'):
            a = fr.regs[callee]; base, o = st.mem.find(a); callee = o[2][3:]
        r = run_function(st, callee, args, decide)
        if dst: fr.regs[dst] = r
        return None
    raise Unsupported('inst: ' + s)

def store_val(st, a, ty, v):
    rt = resolve(st.mod, ty)
    if isinstance(rt, StructTy):
        for i, e in enumerate(rt.els): store_val(st, binop('add', a, field_off(st.mod, rt, i), 64), e, v[i])
    elif isinstance(rt, ArrTy):
        for i in range(rt.n): store_val(st, binop('add', a, i * size_of(st.mod, rt.el), 64), rt.el, v[i])
    else:
        n = 8 if isinstance(rt, PtrTy) else (rt.bits + 7) // 8
        store_int(st, a, n, v)
def load_val(st, a, ty):
    rt = resolve(st.mod, ty)
    if isinstance(rt, StructTy): return [load_val(st, binop('add', a, field_off(st.mod, rt, i), 64), e) for i, e in enumerate(rt.els)]
    if isinstance(rt, ArrTy): return [load_val(st, binop('add', a, i * size_of(st.mod, rt.el), 64), rt.el) for i in range(rt.n)]
    n = 8 if isinstance(rt, PtrTy) else (rt.bits + 7) // 8
    v = load_int(st, a, n)
    if v is None: return None
    bits = 64 if isinstance(rt, PtrTy) else rt.bits
    if bits < 8 * n:
        v = mask(v, bits) if isinstance(v, int) else z3.simplify(z3.Extract(bits - 1, 0, v))
    return v

def call_external(st, name, args, decide):
    n = name.strip('@"')
    if n.startswith('llvm.lifetime') or n.startswith('llvm.experimental.noalias') or n == 'llvm.assume': return None
    if n.startswith('llvm.memcpy') or n.startswith('llvm.memmove'):
        dstp, srcp, ln = args[0], args[1], args[2]
        if is_sym(ln): raise Unsupported('symbolic memcpy len')
        if ln == 0: return None
        b, o = st.mem.find(srcp); off = srcp - b
        if off + ln > o[1]: raise Panic('memcpy src OOB')
        store_bytes(st, dstp, list(o[0][off:off + ln])); return None
    if n.startswith('llvm.memset'):
        if is_sym(args[2]): raise Unsupported('symbolic memset len')
        v = args[1]
        store_bytes(st, args[0], [v] * args[2]); return None
    m = re.match(r'llvm\.bswap\.i(\d+)', n)
    if m:
        bits = int(m.group(1)); v = args[0]
        if isinstance(v, int): return int.from_bytes(v.to_bytes(bits // 8, 'little'), 'big')
        return z3.simplify(z3.Concat(*[z3.Extract(8 * k + 7, 8 * k, v) for k in range(bits // 8)]))
    m = re.match(r'llvm\.(u|s)(add|sub|mul)\.with\.overflow\.i(\d+)', n)
    if m:
        bits = int(m.group(3)); a, b = args
        if isinstance(a, int) and isinstance(b, int) and m.group(1) == 'u':
            full = {'add': a + b, 'sub': a - b, 'mul': a * b}[m.group(2)]
            return [mask(full, bits), int(full != mask(full, bits))]
        if m.group(1) == 'u':
            A = z3.ZeroExt(bits, bv(a, bits)); B = z3.ZeroExt(bits, bv(b, bits))
            full = {'add': A + B, 'sub': A - B, 'mul': A * B}[m.group(2)]
            lo = z3.simplify(z3.Extract(bits - 1, 0, full)); ov = z3.simplify(z3.Extract(2 * bits - 1, bits, full) != 0)
            return [lo, z3.If(ov, z3.BitVecVal(1, 1), z3.BitVecVal(0, 1))]
        raise Unsupported(n)
    m = re.match(r'llvm\.(umax|umin)\.i(\d+)', n)
    if m:
        a, b = args
        if isinstance(a, int) and isinstance(b, int): return max(a, b) if m.group(1) == 'umax' else min(a, b)
        bits = int(m.group(2)); A = bv(a, bits); B = bv(b, bits)
        return z3.simplify(z3.If(z3.UGT(A, B), A, B) if m.group(1) == 'umax' else z3.If(z3.ULT(A, B), A, B))
    m = re.match(r'llvm\.bitreverse\.i(\d+)', n)
    if m:
        bits = int(m.group(1)); v = args[0]
        if isinstance(v, int): return int(format(v, '0%db' % bits)[::-1], 2)
        return z3.simplify(z3.Concat(*[z3.Extract(k, k, v) for k in range(bits)]))
    if 'panicking' in n or 'slice_index_fail' in n or 'handle_error' in n or 'unwrap_failed' in n or 'expect_failed' in n:
        raise Panic('panic: ' + n)
    if '___rust_alloc' in n and 'shim' not in n and 'realloc' not in n and 'dealloc' not in n:
        size = args[0]
        if is_sym(size): raise Unsupported('symbolic alloc size')
        return st.mem.alloc(size, 'heap')
    if '___rust_dealloc' in n: st.mem.free(args[0]); return None
    if '___rust_realloc' in n:
        old, oldsz, al, newsz = args
        new = st.mem.alloc(newsz, 'heap'); b, o = st.mem.find(old)
        store_bytes(st, new, list(o[0][:min(oldsz, newsz)])); st.mem.free(old); return new
    if 'no_alloc_shim' in n: return None
    raise Unsupported('external ' + n)

def load_modules(pattern):
    mod = Module()
    for f in sorted(glob.glob(pattern)): parse_module(f, mod)
    return mod

if __name__ == '__main__':
    t0 = time.time()
    mod = load_modules('/tmp/llprobe/target/release/deps/*.ll')
    print('parsed: %d funcs, %d globals, %d types in %.2fs' % (len(mod.funcs), len(mod.globals), len(mod.types), time.time() - t0))
    CLOSE = bytes([0x76, 0x5, 0xdd, 0x43, 0x44, 0x0, 0x62, 0x0, 0x62, 0x0, 0x72, 0x63, 0x2, 0x1, 0x71, 0x1, 0x63, 0xfd, 0x56, 0x0])
    mode = sys.argv[1] if len(sys.argv) > 1 else 'conc'
    st = State(mod); init_globals(st)
    if mode == 'conc':
        a = st.mem.alloc(len(CLOSE), 'input', list(CLOSE))
        t0 = time.time()
        r = run_function(st, '@drv_parse_stream', [a, len(CLOSE)], None)
        print('drv_parse_stream ->', r, 'steps', st.steps, '%.3fs' % (time.time() - t0))
        st.steps = 0; t0 = time.time()
        r = run_function(st, '@drv_parse_complete', [a, len(CLOSE)], None)
        print('drv_parse_complete ->', r, 'steps', st.steps, '%.3fs' % (time.time() - t0))
        FRAME = bytes.fromhex('1b1b1b1b010101011234567800000000001b1b1b1b1a03')
        FRAME = bytes.fromhex('1b1b1b1b01010101123456781b1b1b1b1a00b87b')
        a = st.mem.alloc(len(FRAME), 'input', list(FRAME)); o = st.mem.alloc(8, 'out', [0]*8)
        st.steps = 0; t0 = time.time()
        r = run_function(st, '@drv_decode', [a, len(FRAME), o], None)
        print('drv_decode ->', r, 'steps', st.steps, '%.3fs' % (time.time() - t0))
