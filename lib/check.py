#!/opt/veriftools/pyvenv/bin/python
"""./check <property id> [--tier quick|thorough] [--replay <file>]

Decides one property of /verif/properties.jsonl on /repo's CURRENT working tree by
solver-based checking of the real code (engines E1 = Kani/CBMC, E2 = llsym; DESIGN.md).
exit 0: held on everything explored; exit 1: natively reproduced violation (VIOLATION line);
exit 2: inconclusive (build failure, timeout, out of memory, non-reproducing model)."""
import argparse, json, os, sys, time
sys.path.insert(0, os.path.dirname(os.path.abspath(__file__)))
from common import *
import plan


def main():
    ap = argparse.ArgumentParser()
    ap.add_argument('pid')
    ap.add_argument('--tier', default=os.environ.get('VERIF_TIER', 'quick'), choices=['quick', 'thorough'])
    ap.add_argument('--replay')
    ap.add_argument('--only', help='comma separated harness / check names (debugging)')
    ap.add_argument('--engine', choices=['E1', 'E2'], help='run only one engine (debugging)')
    a = ap.parse_args()
    pid = a.pid.upper()
    seed = int(os.environ.get('VERIF_SEED', '0') or 0)
    if a.replay:
        return do_replay(pid, a.replay)
    t0 = time.time()
    results = []
    inconclusive = []
    build_s = 0.0
    e1_list = plan.E1.get(pid, {}).get(a.tier) or plan.E1.get(pid, {}).get('quick') or []
    e2_list = plan.e2_checks(pid, a.tier, seed) if hasattr(plan, 'e2_checks') else []
    if a.only:
        only = set(a.only.split(','))
        e1_list = [h for h in e1_list if h in only or h.split('::')[-1] in only]
        e2_list = [c for c in e2_list if c['name'] in only]
    if a.engine == 'E1':
        e2_list = []
    if a.engine == 'E2':
        e1_list = []
    if not e1_list and not e2_list:
        log('no checks registered for %s' % pid)
        return 2

    e1_res, e2_res = [], []
    if e1_list:
        import e1
        try:
            build_s += e1.prepare()
        except e1.BuildError as ex:
            log(str(ex))
            print('INCONCLUSIVE property=%s reason=build-failure (E1)' % pid)
            return 2
    if e2_list:
        import e2
        try:
            build_s += e2.prepare()
        except e2.BuildError as ex:
            log(str(ex))
            print('INCONCLUSIVE property=%s reason=build-failure (E2)' % pid)
            return 2

    timeout = 900 if a.tier == 'quick' else 5400
    if e1_list:
        log('[E1] %d Kani harnesses, timeout %ds each' % (len(e1_list), timeout))
        # E1 and E2 share the machine: E1 jobs are single CBMC processes
        e1_res = e1.run_many(e1_list, timeout, jobs=min(len(e1_list), NCPU))
    if e2_list:
        log('[E2] %d symbolic checks' % len(e2_list))
        e2_res = e2.run_checks(e2_list, a.tier, seed)

    violations = []       # dicts: engine, check, message, replay(dict), known(bool)
    traces_validated = 0
    # ---- E1 results
    for r in e1_res:
        h = r['harness']
        if r['status'] == 'pass':
            continue
        if r['status'] == 'inconclusive':
            inconclusive.append('%s: %s' % (h, r.get('why')))
            continue
        # fail: replay natively
        pbs = r.get('playback') or []
        descs = [f['desc'] for f in r['failed']]
        if not pbs:
            inconclusive.append('%s: failed checks %s but no concrete playback values' % (h, descs[:3]))
            continue
        any_repro = False
        seen = set()
        # attribution: a tagged assertion ("Cxx: ..." / "Cxx/Cyy: ...") counts only for the properties it names; untagged
        # failures (Kani's own overflow / panic / bounds / unwinding checks) count for every property; the INV-preservation
        # lemma (tag C05) is the subject of C05, C08, C17 and a mere premise of the other STEP-based properties
        import re as _re
        kept = []
        premise_failed = False
        for desc, hexvals in pbs:
            m = _re.match(r'^((?:C\d\d/?)+):', desc)
            tags = set(m.group(1).split('/')) if m else None
            if tags is None or pid in tags:
                kept.append((desc, hexvals))
            elif 'C05' in tags and 'c05_step' in h:
                if pid in ('C05', 'C08', 'C17'): kept.append((desc, hexvals))
                else: premise_failed = True
        if premise_failed and not kept:
            inconclusive.append('%s: the representation invariant INV, a premise of this property\'s STEP lemmas, is not preserved (see C05)' % h)
            continue
        if not kept:
            continue      # only assertions belonging to other properties failed in this shared harness
        pbs = kept
        for desc, hexvals in pbs:
            rep = e1.native_replay(h, hexvals)
            traces_validated += 1
            if e1.reproduced(rep):
                any_repro = True
                key = (h, desc)
                if key in seen:
                    continue
                seen.add(key)
                violations.append({'engine': 'E1', 'check': h, 'message': desc, 'values_hex': hexvals, 'native': rep})
        if not any_repro:
            inconclusive.append('%s: solver counterexample for %s did not reproduce natively (%s)' % (h, descs[:2], pbs and e1.native_replay(h, pbs[0][1])))
    # ---- E2 results
    for r in e2_res:
        traces_validated += r.get('traces_validated', 0)
        if r['status'] == 'inconclusive':
            inconclusive.append('%s: %s' % (r['name'], r.get('why')))
        for v in r.get('violations', []):
            violations.append(dict(v, engine='E2', check=r['name']))

    # ---- positive control for E1 harnesses (native runs of the same lemma on pseudo-random values)
    fuzz = {}
    if e1_list:
        for h in e1_list:
            fz = e1.native_fuzz(h, seed + 1, 3000)
            fuzz[h] = fz
            traces_validated += int(fz.get('pass', 0))
            if fz.get('violated', 0) or fz.get('panicked', 0):
                fb = fz.get('first_bad', '')
                msg, _, hx = fb.rpartition(' ')
                violations.append({'engine': 'E1-native', 'check': h, 'message': msg or 'native run of the lemma failed', 'values_hex': hx,
                                   'native': {'debug': 'VIOLATED ' + msg}})

    # ---- known findings / report
    known = [k for k in load_known() if k.get('status') == 'known' and k.get('property') == pid]
    new_v = []
    os.makedirs(REPLAYS, exist_ok=True)
    for i, v in enumerate(violations):
        k = match_known(v, known)
        if k:
            print('KNOWN-FINDING: property=%s %s' % (pid, k.get('what', v['message'])))
            v['known'] = True
            continue
        path = os.path.join(REPLAYS, '%s-%s-%d.json' % (pid, v['check'].replace('::', '.'), i))
        json.dump(dict(v, property=pid, repo=repo_fingerprint()), open(path, 'w'), indent=1)
        v['replay'] = path
        new_v.append(v)

    wall = time.time() - t0
    write_ev(pid, a.tier, seed, e1_res, e2_res, fuzz, traces_validated, wall, build_s, new_v, violations, inconclusive)

    for v in new_v:
        print('VIOLATION property=%s replay=%s' % (pid, v['replay']))
        log('  %s [%s] %s' % (v['check'], v['engine'], v['message']))
    if new_v:
        return 1
    if inconclusive:
        for m in inconclusive:
            print('INCONCLUSIVE property=%s %s' % (pid, m))
        return 2
    print('OK property=%s tier=%s checks=%d wall=%.0fs' % (pid, a.tier, len(e1_res) + len(e2_res), wall))
    return 0


def match_known(v, known):
    for k in known:
        m = k.get('match', {})
        if m.get('check') and m['check'] != v['check']:
            continue
        if m.get('message') and m['message'] not in v['message']:
            continue
        if m.get('input_hex') and m['input_hex'] != v.get('values_hex', v.get('input_hex')):
            continue
        return k
    return None


def write_ev(pid, tier, seed, e1_res, e2_res, fuzz, traces_validated, wall, build_s, new_v, all_v, inconclusive):
    states = sum(r.get('n_checks', 0) for r in e1_res) + sum(r.get('paths', 0) for r in e2_res)
    transitions = sum(r.get('steps', 0) for r in e1_res) + sum(r.get('ir_steps', 0) for r in e2_res)
    samples = []
    for r in e1_res[:6]:
        samples.append({'engine': 'E1', 'harness': r['harness'], 'status': r['status'], 'cbmc_checks': r.get('n_checks'),
                        'covers': r.get('covers', [])[:4], 'example_checks': r.get('sample_checks', [])[:4]})
    for r in e2_res[:8]:
        samples.append({'engine': 'E2', 'check': r['name'], 'status': r['status'], 'paths': r.get('paths'), 'example_paths': r.get('samples', [])[:3]})
    mods = sorted(set(r['harness'].split('::')[0] for r in e1_res))
    cov = {
        'states': max(states, 0),
        'transitions': max(transitions, 0),
        'traces_validated_against_impl': traces_validated,
        'samples': samples or [{'note': 'nothing ran'}],
        'explanation': 'states = CBMC properties decided (E1) + symbolic paths explored to completion with every branch decided by z3 (E2); transitions = SSA program steps (E1) + LLVM IR instructions executed symbolically (E2); traces_validated_against_impl = native runs of the identical harness/check function on solver models, vacuity witnesses, translator-validation vectors and pseudo-random positive controls',
        'engines': {
            'E1_kani': {
                'harnesses': [{k: r.get(k) for k in ('harness', 'status', 'wall_s', 'n_checks', 'n_success', 'n_unreachable', 'vccs', 'vccs_after_simpl', 'steps', 'sat_vars', 'sat_clauses', 'symex_s', 'solver_s', 'decision_s', 'why')} for r in e1_res],
                'bounds': {m: plan.E1_BOUNDS.get(m) for m in mods},
                'queries_discharged': sum(r.get('n_success', 0) for r in e1_res),
                'solver_time_s': round(sum(r.get('decision_s', 0) for r in e1_res), 1),
                'native_positive_control': fuzz,
            },
            'E2_llsym': {
                'checks': [{k: r.get(k) for k in ('name', 'status', 'wall_s', 'paths', 'ir_steps', 'solver_queries', 'solver_s', 'bounds', 'functions', 'why', 'validation')} for r in e2_res],
                'queries_discharged': sum(r.get('solver_queries', 0) for r in e2_res),
                'solver_time_s': round(sum(r.get('solver_s', 0) for r in e2_res), 1),
            },
        },
        'functions_encoded': sorted(set(sum([r.get('functions', []) for r in e2_res], []))) or 'see harness list (Kani compiles the reachable sml-rs code of each harness to a goto program)',
        'build_s': round(build_s, 1),
        'repo_tree': repo_fingerprint(),
        'inconclusive': inconclusive,
        'violations_detail': [{k: v.get(k) for k in ('engine', 'check', 'message', 'replay', 'known')} for v in all_v],
        'exhaustive': False,
    }
    assumptions = [
        'x86-64, 64-bit usize; Kani models the dev profile (overflow checks on); E2 executes opt-level-1 LLVM IR of the pre-installed nightly with overflow checks on',
        'trusted: rustc lowering (MIR->goto / ->LLVM IR), CBMC 6.11 + CaDiCaL, z3, the llsym IR semantics (validated against native runs on every run)',
        'STEP harnesses: claim holds for histories of any length provided INV (DESIGN.md 8.1) over-approximates the reachable states; INV preservation is itself checked (C05)',
        'bounded claims only: see coverage.engines.*.bounds; inputs with more symbolic bytes than the bound are outside the claim',
    ]
    write_evidence(pid, tier, seed, cov, assumptions, wall, len(new_v))


def do_replay(pid, path):
    v = json.load(open(path))
    if v['engine'].startswith('E1'):
        import e1
        e1.prepare()
        rep = e1.native_replay(v['check'], v['values_hex'])
        print(json.dumps(rep))
        if e1.reproduced(rep):
            print('VIOLATION property=%s replay=%s' % (pid, path))
            return 1
        return 0
    else:
        import e2
        e2.prepare()
        hx = ('00' * v['scale_input'][0] + v['scale_input'][1]) if v.get('scale_input') else v['input_hex']
        rep = e2.native_replay(v.get('fn', v['check']), hx, env_extra=({'LLSYM_ALLOC_FAIL_ABOVE': str(v['alloc_fail_above'])} if v.get('alloc_fail_above') is not None else None))
        print(json.dumps(rep))
        if e2.reproduced(rep):
            print('VIOLATION property=%s replay=%s' % (pid, path))
            return 1
        return 0


if __name__ == '__main__':
    sys.exit(main())
