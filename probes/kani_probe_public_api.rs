#![allow(unused)]
use sml_rs::transport::{Decoder, encode, encode_streaming, decode_streaming, DecodeErr};
use sml_rs::util::{ArrayBuf, Buffer};

pub fn crc_x25_bitwise(data: &[u8]) -> u16 {
    let mut crc: u16 = 0xffff;
    for &b in data {
        crc ^= b as u16;
        for _ in 0..8 {
            crc = if crc & 1 != 0 { (crc >> 1) ^ 0x8408 } else { crc >> 1 };
        }
    }
    !crc
}

/// spec encoder into fixed array, returns length
pub fn spec_encode<const M: usize>(p: &[u8], out: &mut [u8; M]) -> usize {
    let mut n = 0;
    for b in [0x1b,0x1b,0x1b,0x1b,1,1,1,1] { out[n] = b; n += 1; }
    let mut run = 0;
    for &b in p {
        out[n] = b; n += 1;
        if b == 0x1b { run += 1 } else { run = 0 }
        if run == 4 { for _ in 0..4 { out[n] = 0x1b; n += 1; } run = 0; }
    }
    let mut pad = 0u8;
    while n % 4 != 0 { out[n] = 0; n += 1; pad += 1; }
    for b in [0x1b,0x1b,0x1b,0x1b,0x1a,pad] { out[n] = b; n += 1; }
    let c = crc_x25_bitwise(&out[..n]);
    out[n] = (c & 0xff) as u8; out[n+1] = (c >> 8) as u8; n += 2;
    n
}

#[cfg(kani)]
mod proofs {
    use super::*;

    #[kani::proof]
    #[kani::unwind(10)]
    fn dec_4() {
        let mut d = Decoder::<ArrayBuf<8>>::new();
        let _ = d.push_byte(kani::any());
        let _ = d.push_byte(kani::any());
        let _ = d.push_byte(kani::any());
        let _ = d.push_byte(kani::any());
    }

    #[kani::proof]
    #[kani::unwind(34)]
    fn enc_buf_4() {
        const L: usize = 4;
        let p: [u8; L] = kani::any();
        let len: usize = kani::any();
        kani::assume(len <= L);
        let r = encode::<ArrayBuf<32>>(&p[..len]);
        let mut spec = [0u8; 32];
        let n = spec_encode(&p[..len], &mut spec);
        let r = r.unwrap();
        assert!(r.len() == n);
        let mut i = 0;
        while i < n { assert!(r[i] == spec[i]); i += 1; }
    }

    #[kani::proof]
    #[kani::unwind(34)]
    fn enc_iter_4() {
        const L: usize = 4;
        let p: [u8; L] = kani::any();
        let len: usize = kani::any();
        kani::assume(len <= L);
        let mut it = encode_streaming(&p[..len]);
        let mut spec = [0u8; 32];
        let n = spec_encode(&p[..len], &mut spec);
        let mut i = 0;
        while i < n { let x = it.next(); assert!(x == Some(spec[i])); i += 1; }
        assert!(it.next().is_none());
        assert!(it.next().is_none());
    }

    #[kani::proof]
    #[kani::unwind(14)]
    fn sp_12() {
        let b: [u8; 12] = kani::any();
        let len: usize = kani::any();
        kani::assume(len <= 12);
        let mut p = sml_rs::parser::streaming::Parser::new(&b[..len]);
        let mut n = 0;
        while let Some(r) = p.next() {
            n += 1;
            if n > 13 { break; }
        }
        assert!(n <= 13);
    }

    #[kani::proof]
    #[kani::unwind(14)]
    fn cp_12() {
        let b: [u8; 12] = kani::any();
        let len: usize = kani::any();
        kani::assume(len <= 12);
        let r = sml_rs::parser::complete::parse(&b[..len]);
        core::mem::forget(r);
    }

    #[kani::proof]
    #[kani::unwind(42)]
    fn enc_buf_c8() {
        const L: usize = 8;
        let p: [u8; L] = kani::any();
        let r = encode::<ArrayBuf<40>>(&p);
        let mut spec = [0u8; 40];
        let n = spec_encode(&p, &mut spec);
        let r = r.unwrap();
        assert!(r.len() == n);
        let mut i = 0;
        while i < n { assert!(r[i] == spec[i]); i += 1; }
    }

    #[kani::proof]
    #[kani::unwind(17)]
    fn sp1_16() {
        let b: [u8; 16] = kani::any();
        let mut p = sml_rs::parser::streaming::Parser::new(&b);
        let r = p.next();
        core::mem::forget(r);
    }

    const CLOSE: [u8; 20] = [0x76, 0x5, 0xdd, 0x43, 0x44, 0x0, 0x62, 0x0, 0x62, 0x0, 0x72, 0x63, 0x2, 0x1, 0x71, 0x1, 0x63, 0xfd, 0x56, 0x0];

    fn run_pos(pos: usize) {
        let mut b = CLOSE;
        b[pos] = kani::any();
        let r = sml_rs::parser::complete::parse(&b);
        let mut p = sml_rs::parser::streaming::Parser::new(&b);
        let mut n = 0; let mut err = false;
        while n < 4 { match p.next() { None => break, Some(Ok(_)) => {}, Some(Err(_)) => { err = true; break; } } n += 1; }
        assert!(r.is_err() == err);
        if b[pos] != CLOSE[pos] { assert!(err); }
        core::mem::forget(r);
    }
    #[kani::proof] #[kani::unwind(21)] fn pos_0() { run_pos(0) }
    #[kani::proof] #[kani::unwind(21)] fn pos_1() { run_pos(1) }
    #[kani::proof] #[kani::unwind(21)] fn pos_3() { run_pos(3) }
    #[kani::proof] #[kani::unwind(21)] fn pos_10() { run_pos(10) }

    // content symbolic: transaction id bytes + recomputed crc
    #[kani::proof] #[kani::unwind(21)]
    fn content_sym() {
        let mut b = CLOSE;
        b[2] = kani::any(); b[3] = kani::any(); b[4] = kani::any(); b[5] = kani::any();
        let c = crc_x25_bitwise(&b[..16]);
        b[17] = (c & 0xff) as u8; b[18] = (c >> 8) as u8;
        let r = sml_rs::parser::complete::parse(&b);
        match &r {
            Ok(f) => { assert!(f.messages.len() == 1); let t = f.messages[0].transaction_id; assert!(t.len() == 4 && t[0] == b[2] && t[3] == b[5]); }
            Err(_) => assert!(false),
        }
        core::mem::forget(r);
    }

    #[kani::proof] #[kani::unwind(21)]
    fn conc_complete() {
        let b = CLOSE;
        let r = sml_rs::parser::complete::parse(&b);
        assert!(r.is_ok());
        core::mem::forget(r);
    }
    #[kani::proof] #[kani::unwind(21)]
    fn conc_stream() {
        let b = CLOSE;
        let mut p = sml_rs::parser::streaming::Parser::new(&b);
        assert!(matches!(p.next(), Some(Ok(_))));
        assert!(p.next().is_none());
    }
    #[kani::proof] #[kani::unwind(21)]
    fn content_stream() {
        let mut b = CLOSE;
        b[2] = kani::any(); b[3] = kani::any(); b[4] = kani::any(); b[5] = kani::any();
        b[17] = kani::any(); b[18] = kani::any();
        let mut p = sml_rs::parser::streaming::Parser::new(&b);
        let a = p.next();
        let c = p.next();
        core::mem::forget(a); core::mem::forget(c);
    }
}
