//! Kani (CBMC) harnesses over the real sml-rs code — engine E1 of /verif/DESIGN.md.
//!
//! Every harness is an ordinary generic function `fn h_xxx<N: Nd>(nd: &mut N) -> Out`:
//! under `cfg(kani)` the nondeterministic source is `kani::any()` and `check!` is a
//! CBMC assertion; natively (`cargo run --bin replay`) the same function runs on the
//! values of the solver's counterexample, so the replay executes the identical lemma
//! against a native build of /repo.
#![allow(clippy::all)]
#![allow(unused)]

pub mod nd;
#[macro_use]
pub mod macros;
pub mod spec;

pub mod arraybuf;
pub mod decstep;
pub mod encstep;
pub mod prims;
pub mod reader;
pub mod stream13;

pub use nd::{Nd, Out, Replay};

/// Native table of every harness (name → function on a replay source).
pub fn harness_table() -> Vec<(&'static str, fn(&mut Replay) -> Out)> {
    let mut v: Vec<(&'static str, fn(&mut Replay) -> Out)> = Vec::new();
    prims::register(&mut v);
    arraybuf::register(&mut v);
    decstep::register(&mut v);
    encstep::register(&mut v);
    stream13::register(&mut v);
    reader::register(&mut v);
    v
}
