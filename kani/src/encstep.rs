//! C07 / C05 — iterator encoder: lock-step simulation between `Encoder::next` and a reference
//! streaming encoder written from the Transport v1 prose (one STEP from any related pair of
//! states ⇒ equal output streams for payloads of every length), plus the buffer encoder on
//! short payloads (FUNC).
use crate::nd::{Nd, Out, Replay};
use crate::spec::{crc_after_start, crc_fin, crc_reg, crc_upd, START};
use sml_rs::transport::encode_verif::EncState;
use sml_rs::transport::{encode, encode_streaming, Encoder};
use sml_rs::util::{ArrayBuf, OutOfMemory};

/// Reference streaming encoder. `crc` is the CRC register over every byte emitted so far
/// (frozen once the checksum field itself is being emitted).
#[derive(Clone, Copy, PartialEq, Eq, Debug)]
pub struct SpecEnc {
    /// 0 = start sequence, 1 = data, 2 = inserted escape, 3 = padding + end sequence, 4 = finished
    pub phase: u8,
    /// position inside the phase (data: length of the current run of 0x1b payload bytes)
    pub i: u8,
    /// payload bytes consumed so far, modulo 256 (only its value modulo 4 matters)
    pub cnt: u8,
    pub crc: u16,
}

impl SpecEnc {
    pub fn new() -> Self {
        SpecEnc { phase: 0, i: 0, cnt: 0, crc: 0xffff }
    }
    pub fn pad(&self) -> u8 {
        (4 - (self.cnt % 4)) % 4
    }
    /// byte j of: zero padding ‖ 1b1b1b1b 1a ‖ pad count ‖ crc lo ‖ crc hi
    pub fn tail(&self, j: u8) -> u8 {
        let pad = self.pad();
        if j < pad {
            0
        } else if j < pad + 4 {
            0x1b
        } else if j == pad + 4 {
            0x1a
        } else if j == pad + 5 {
            pad
        } else if j == pad + 6 {
            (crc_fin(self.crc) & 0xff) as u8
        } else {
            (crc_fin(self.crc) >> 8) as u8
        }
    }
    /// One output byte. Returns (output, whether the payload item was consumed).
    pub fn next(&mut self, item: Option<u8>) -> (Option<u8>, bool) {
        match self.phase {
            0 => {
                let b = START[self.i as usize];
                self.crc = crc_upd(self.crc, b);
                self.i += 1;
                if self.i == 8 {
                    self.phase = 1;
                    self.i = 0;
                }
                (Some(b), false)
            }
            1 => match item {
                Some(b) => {
                    self.crc = crc_upd(self.crc, b);
                    self.cnt = self.cnt.wrapping_add(1);
                    let run = if b == 0x1b { self.i + 1 } else { 0 };
                    if run == 4 {
                        self.phase = 2;
                        self.i = 0;
                    } else {
                        self.i = run;
                    }
                    (Some(b), true)
                }
                None => {
                    self.phase = 3;
                    self.i = 0;
                    let (o, _) = self.next(None);
                    (o, true)
                }
            },
            2 => {
                self.crc = crc_upd(self.crc, 0x1b);
                self.i += 1;
                if self.i == 4 {
                    self.phase = 1;
                    self.i = 0;
                }
                (Some(0x1b), false)
            }
            3 => {
                let pad = self.pad();
                let b = self.tail(self.i);
                if self.i <= pad + 5 {
                    self.crc = crc_upd(self.crc, b);
                }
                self.i += 1;
                if self.i == pad + 8 {
                    self.phase = 4;
                    self.i = 0;
                }
                (Some(b), false)
            }
            _ => (None, false),
        }
    }
}

fn upd_n(mut r: u16, b: u8, n: u8) -> u16 {
    let mut i = 0;
    while i < 4 {
        if i < n {
            r = crc_upd(r, b);
        }
        i += 1;
    }
    r
}

/// Simulation relation between the real encoder state and the reference encoder state.
pub fn rel(s: &EncState, q: &SpecEnc) -> bool {
    if s.padding != 0u8.wrapping_sub(q.cnt) {
        return false;
    }
    let rc = crc_reg(s.crc);
    let pad = q.pad();
    let n = s.n;
    match s.tag {
        0 => {
            if n >= 0 && n < 8 {
                // the real encoder pre-computes CRC(start sequence) in its constructor
                let mut c = 0xffffu16;
                let mut i = 0;
                while i < 8 {
                    if (i as i16) < n {
                        c = crc_upd(c, START[i]);
                    }
                    i += 1;
                }
                q.phase == 0 && q.i as i16 == n && q.cnt == 0 && rc == crc_after_start() && q.crc == c
            } else if n == 8 {
                q.phase == 1 && q.i == 0 && q.cnt == 0 && rc == q.crc && rc == crc_after_start()
            } else {
                false
            }
        }
        1 => {
            if n >= 0 && n <= 3 {
                q.phase == 1 && q.i as i16 == n && rc == q.crc
            } else if n == 4 {
                q.phase == 2 && q.i == 0 && rc == q.crc
            } else {
                false
            }
        }
        2 => {
            if n >= 1 && n <= 3 {
                q.phase == 2 && q.i as i16 == n && rc == upd_n(q.crc, 0x1b, (4 - n) as u8)
            } else if n == 4 {
                q.phase == 1 && q.i == 0 && rc == q.crc
            } else {
                false
            }
        }
        3 => {
            if n == 8 {
                return q.phase == 4;
            }
            if n < -3 || n > 8 {
                return false;
            }
            let j = n + pad as i16;
            if j < 0 || q.phase != 3 || q.i as i16 != j {
                return false;
            }
            // real crc already covers the rest of the tail up to and including the pad count
            let mut c = q.crc;
            let mut k: u8 = 0;
            while k < 9 {
                if (k as i16) >= j && k <= pad + 5 {
                    c = crc_upd(c, q.tail(k));
                }
                k += 1;
            }
            rc == c
        }
        _ => false,
    }
}

pub struct OneShot {
    pub item: Option<u8>,
    pub reads: u32,
}
impl Iterator for OneShot {
    type Item = u8;
    fn next(&mut self) -> Option<u8> {
        self.reads += 1;
        self.item
    }
}

pub fn draw_enc<S: Nd>(nd: &mut S) -> (EncState, SpecEnc, Option<u8>) {
    let s = EncState { tag: nd.u8(), n: nd.u16() as i16, padding: nd.u8(), crc: nd.u16() };
    let q = SpecEnc { phase: nd.u8(), i: nd.u8(), cnt: nd.u8(), crc: nd.u16() };
    let has = nd.bool();
    let b = nd.u8();
    (s, q, if has { Some(b) } else { None })
}

/// STEP: from any related pair (real state, reference state) and any next payload item,
/// both emit the same byte and end in related states; the real encoder polls its source
/// exactly when the reference consumes an item; no assert / unreachable arm is hit.
pub fn h_c07_enc_step<S: Nd>(nd: &mut S) -> Out {
    let (s, mut q, item) = draw_enc(nd);
    assume!(s.tag <= 3);
    assume!(q.phase <= 4 && q.i <= 11);
    assume!(rel(&s, &q));
    let mut e = Encoder::verif_from_state(OneShot { item, reads: 0 }, &s);
    let out = e.next();
    let s2 = e.verif_state();
    let (qout, consumed) = q.next(item);
    check!(out == qout, "C07: iterator encoder output differs from the Transport v1 reference encoder");
    check!(rel(&s2, &q), "C07: iterator encoder state leaves the simulation relation (later output would differ)");
    cover!(s.tag == 3 && s.n == 5, "witness: pad count byte emitted");
    cover!(s.tag == 1 && s.n == 4, "witness: escape inserted");
    cover!(out.is_none(), "witness: encoder finished");
    Out::Pass
}
proof!(c07_enc_step, 10, h_c07_enc_step);

/// The constructor state is related to the reference's initial state.
pub fn h_c07_enc_init<S: Nd>(nd: &mut S) -> Out {
    let e = Encoder::new(OneShot { item: None, reads: 0 });
    let s = e.verif_state();
    check!(rel(&s, &SpecEnc::new()), "C07: initial encoder state is not the reference's initial state");
    Out::Pass
}
proof!(c07_enc_init, 10, h_c07_enc_init);

/// C05/C07: "ends for good" — once `None` was returned every further call returns `None`
/// without polling the source (checked from every state related to Finished).
pub fn h_c07_enc_end<S: Nd>(nd: &mut S) -> Out {
    let (s, q, item) = draw_enc(nd);
    assume!(s.tag <= 3);
    assume!(q.phase == 4);
    assume!(rel(&s, &q));
    let mut e = Encoder::verif_from_state(OneShot { item, reads: 0 }, &s);
    let o1 = e.next();
    let o2 = e.next();
    check!(o1.is_none() && o2.is_none(), "C07: iterator encoder yields bytes after it has ended");
    Out::Pass
}
proof!(c07_enc_end, 10, h_c07_enc_end);

/// Reference (whole-frame) encoder: start ‖ escaped payload ‖ pad ‖ end ‖ crc. Returns the length.
pub fn spec_encode(p: &[u8], out: &mut [u8]) -> usize {
    let mut q = SpecEnc::new();
    let mut n = 0usize;
    let mut k = 0usize;
    loop {
        let item = if k < p.len() { Some(p[k]) } else { None };
        let (o, consumed) = q.next(item);
        if consumed && k < p.len() {
            k += 1;
        }
        match o {
            Some(b) => {
                out[n] = b;
                n += 1;
            }
            None => break,
        }
    }
    n
}

/// FUNC: buffer encoder on P symbolic payload bytes (all lengths 0..=P) into `ArrayBuf<C>`:
/// byte-identical to the reference, OutOfMemory exactly when the frame does not fit.
pub fn h_buf_encode<const P: usize, const C: usize, S: Nd>(nd: &mut S) -> Out {
    let p: [u8; P] = nd.arr();
    let len = nd.usize();
    assume!(len <= P);
    let mut want = [0u8; 64];
    let wn = spec_encode(&p[..len], &mut want);
    let r = encode::<ArrayBuf<C>>(&p[..len]);
    match r {
        Ok(buf) => {
            check!(wn <= C, "C07: buffer encoder succeeded although the frame does not fit");
            check!(buf.len() == wn, "C07: buffer encoder frame length differs from Transport v1");
            let mut i = 0;
            while i < C {
                if i < wn {
                    check!(buf[i] == want[i], "C07: buffer encoder output differs from Transport v1");
                }
                i += 1;
            }
        }
        Err(OutOfMemory) => {
            check!(wn > C, "C07: buffer encoder reports out-of-memory although the frame fits");
        }
    }
    cover!(wn > C, "witness: frame does not fit");
    cover!(wn == C, "witness: frame fits exactly");
    Out::Pass
}
pub fn h_c07_buf_4_24<S: Nd>(nd: &mut S) -> Out {
    h_buf_encode::<4, 24, S>(nd)
}
pub fn h_c07_buf_4_20<S: Nd>(nd: &mut S) -> Out {
    h_buf_encode::<4, 20, S>(nd)
}
pub fn h_c07_buf_5_27<S: Nd>(nd: &mut S) -> Out {
    h_buf_encode::<5, 27, S>(nd)
}
proof!(c07_buf_4_24, 40, h_c07_buf_4_24);
proof!(c07_buf_4_20, 40, h_c07_buf_4_20);
proof!(c07_buf_5_27, 40, h_c07_buf_5_27);

pub fn register(v: &mut Vec<(&'static str, fn(&mut Replay) -> Out)>) {
    v.push(("c07_enc_step", h_c07_enc_step::<Replay>));
    v.push(("c07_enc_init", h_c07_enc_init::<Replay>));
    v.push(("c07_enc_end", h_c07_enc_end::<Replay>));
    v.push(("c07_buf_4_24", h_c07_buf_4_24::<Replay>));
    v.push(("c07_buf_4_20", h_c07_buf_4_20::<Replay>));
    v.push(("c07_buf_5_27", h_c07_buf_5_27::<Replay>));
}
