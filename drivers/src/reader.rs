//! E2 checks for the reader layer: C11 (I/O faults) and C10 (end to end).
use crate::parser::{conv_file, run_stream};
use crate::refsml::RMessage;
use crate::spec::spec_encode;
use crate::transport::{push_events, Ev};
use crate::{assume, cover, fail, input};
use sml_rs::parser::complete::File;
use sml_rs::parser::streaming::Parser;
use sml_rs::transport::{DecodeErr, Decoder, ReadDecodedError};
use sml_rs::util::{ArrayBuf, Buffer};
use sml_rs::{DecodedBytes, ReadParsedError, SmlReader};
use std::io::{self, ErrorKind, Read};

/// `io::Read` that follows a script: one entry per read() call.
/// 0 = deliver the next byte (end of data => Ok(0)), 1 = WouldBlock, 2 = Interrupted, 3 = Other error, 4 = end of input now,
/// 5 = TimedOut, 6 = BrokenPipe, 7 = InvalidData (all of them "other" errors for the reader).
pub struct Faulty<'a> {
    pub data: &'a [u8],
    pub pos: usize,
    pub script: &'a [u8],
    pub si: usize,
    pub ended: bool,
}

impl<'a> Faulty<'a> {
    fn op(&mut self) -> u8 {
        let o = if self.si < self.script.len() { self.script[self.si] } else { 0 };
        self.si += 1;
        o
    }
}

impl<'a> Read for Faulty<'a> {
    fn read(&mut self, buf: &mut [u8]) -> io::Result<usize> {
        if buf.is_empty() {
            return Ok(0);
        }
        if self.ended {
            return Ok(0);
        }
        match self.op() {
            1 => Err(ErrorKind::WouldBlock.into()),
            2 => Err(ErrorKind::Interrupted.into()),
            3 => Err(ErrorKind::Other.into()),
            5 => Err(ErrorKind::TimedOut.into()),
            6 => Err(ErrorKind::BrokenPipe.into()),
            7 => Err(ErrorKind::InvalidData.into()),
            4 => {
                self.ended = true;
                Ok(0)
            }
            _ => {
                if self.pos < self.data.len() {
                    buf[0] = self.data[self.pos];
                    self.pos += 1;
                    Ok(1)
                } else {
                    self.ended = true;
                    Ok(0)
                }
            }
        }
    }
}

/// What the reader must report next, derived by driving a decoder by hand over the same script.
#[derive(PartialEq, Eq, Debug)]
enum Obs {
    Data(Vec<u8>),
    Dec(DecodeErr),
    WouldBlock,
    Other(usize),
    Eof(usize),
    End,
}

struct Sim<'a> {
    data: &'a [u8],
    pos: usize,
    script: &'a [u8],
    si: usize,
    dec: Decoder<Vec<u8>>,
    /// bytes consumed since the last boundary, counted independently of the decoder
    inflight: usize,
    ended: bool,
}

impl<'a> Sim<'a> {
    fn next_obs(&mut self) -> Obs {
        loop {
            if self.ended {
                let n = self.inflight;
                self.inflight = 0;
                self.dec.reset();
                return if n == 0 { Obs::End } else { Obs::Eof(n) };
            }
            let o = if self.si < self.script.len() { self.script[self.si] } else { 0 };
            self.si += 1;
            match o {
                1 => return Obs::WouldBlock,
                2 => continue,
                3 | 5 | 6 | 7 => {
                    let n = self.inflight;
                    self.inflight = 0;
                    self.dec.reset();
                    return Obs::Other(n);
                }
                4 => {
                    self.ended = true;
                    continue;
                }
                _ => {
                    if self.pos >= self.data.len() {
                        self.ended = true;
                        continue;
                    }
                    let b = self.data[self.pos];
                    self.pos += 1;
                    self.inflight += 1;
                    match self.dec.push_byte(b) {
                        Ok(None) => {}
                        Ok(Some(m)) => {
                            self.inflight = 0;
                            return Obs::Data(m.to_vec());
                        }
                        Err(DecodeErr::DiscardedBytes(k)) => {
                            self.inflight = 8;
                            return Obs::Dec(DecodeErr::DiscardedBytes(k));
                        }
                        Err(e) => {
                            self.inflight = 0;
                            return Obs::Dec(e);
                        }
                    }
                }
            }
        }
    }
}

/// Input: [F][F script bytes][stream...]. The reader over the fault-injecting source must report exactly
/// what a hand-driven decoder reports, with every fault surfacing as documented.
#[no_mangle]
pub extern "C" fn chk_faults(ptr: *const u8, n: usize) -> u32 {
    let x = unsafe { input(ptr, n) };
    if x.is_empty() {
        return 0;
    }
    let f = x[0] as usize;
    if x.len() < 1 + f {
        return 0;
    }
    let script = &x[1..1 + f];
    let data = &x[1 + f..];
    for s in script {
        assume(*s <= 7);
    }
    let src = Faulty { data, pos: 0, script, si: 0, ended: false };
    let mut rd = SmlReader::with_static_buffer::<32>().from_reader(src);
    let mut sim = Sim { data, pos: 0, script, si: 0, dec: Decoder::new(), inflight: 0, ended: false };
    let mut calls = 0u32;
    loop {
        calls += 1;
        if calls as usize > data.len() + script.len() + 4 {
            fail(1190);
            break;
        }
        let want = sim.next_obs();
        let got = rd.next::<DecodedBytes>();
        match (got, &want) {
            (None, Obs::End) => break,
            (Some(Ok(m)), Obs::Data(w)) => {
                if m != w.as_slice() {
                    fail(1101);
                }
            }
            (Some(Err(ReadDecodedError::DecodeErr(e))), Obs::Dec(w)) => {
                if e != *w {
                    fail(1102);
                }
            }
            (Some(Err(ReadDecodedError::IoErr(e, k))), Obs::WouldBlock) => {
                if e.kind() != ErrorKind::WouldBlock || k != 0 {
                    fail(1103);
                }
                cover(111);
            }
            (Some(Err(ReadDecodedError::IoErr(e, k))), Obs::Other(w)) => {
                let kd = e.kind();
                if !(kd == ErrorKind::Other || kd == ErrorKind::TimedOut || kd == ErrorKind::BrokenPipe || kd == ErrorKind::InvalidData) || k != *w {
                    fail(1104);
                }
                cover(112);
            }
            (Some(Err(ReadDecodedError::IoErr(e, k))), Obs::Eof(w)) => {
                if e.kind() != ErrorKind::UnexpectedEof || k != *w {
                    fail(1105);
                }
                cover(113);
            }
            _ => {
                fail(1106);
                break;
            }
        }
    }
    // end of input: None, and keeps being None
    if rd.next::<DecodedBytes>().is_some() || rd.next::<DecodedBytes>().is_some() {
        fail(1107);
    }
    cover(11);
    calls
}

// ------------------------------------------------------------------------------------------------
// C10 end to end
// ------------------------------------------------------------------------------------------------
fn expect_parsed<E: core::fmt::Debug>(r: Result<File, ReadParsedError<E>>, ev: Option<&(usize, Ev)>, code: u32) {
    match (r, ev) {
        (Ok(f), Some((_, Ev::Data(m)))) => match sml_rs::parser::complete::parse(m) {
            Ok(w) => {
                if conv_file(&f) != conv_file(&w) {
                    fail(code + 1);
                }
            }
            Err(_) => fail(code + 2),
        },
        (Err(ReadParsedError::ParseErr(e)), Some((_, Ev::Data(m)))) => match sml_rs::parser::complete::parse(m) {
            Ok(_) => fail(code + 3),
            Err(w) => {
                if e != w {
                    fail(code + 4);
                }
            }
        },
        (Err(ReadParsedError::DecodeErr(e)), Some((_, Ev::Err(w)))) => {
            if e != *w {
                fail(code + 5);
            }
        }
        _ => fail(code + 6),
    }
}

fn expect_parser<E>(r: Result<Parser, ReadDecodedError<E>>, ev: Option<&(usize, Ev)>, code: u32) {
    match (r, ev) {
        (Ok(p), Some((_, Ev::Data(m)))) => {
            // events of the returned parser == events of a parser made by hand on the decoded bytes
            let mut a = p;
            let mut b = Parser::new(m);
            let mut k = 0;
            loop {
                let (x, y) = (a.next(), b.next());
                match (x, y) {
                    (None, None) => break,
                    (Some(Ok(_)), Some(Ok(_))) => {}
                    (Some(Err(e1)), Some(Err(e2))) => {
                        if e1 != e2 {
                            fail(code + 1);
                        }
                        break;
                    }
                    _ => {
                        fail(code + 2);
                        break;
                    }
                }
                k += 1;
                if k > m.len() + 2 {
                    break;
                }
            }
        }
        (Err(ReadDecodedError::DecodeErr(e)), Some((_, Ev::Err(w)))) => {
            if e != *w {
                fail(code + 3);
            }
        }
        _ => fail(code + 4),
    }
}

fn e2e<R: sml_rs::util::ByteSource, B: Buffer>(mut rd: SmlReader<R, B>, stream: &[u8], choices: &[u8]) -> u32
where
    R::ReadError: core::fmt::Debug,
{
    let (evs, fin) = push_events::<Vec<u8>>(stream);
    let mut k = 0usize;
    let mut calls = 0usize;
    loop {
        let c = if calls < choices.len() { choices[calls] } else { 0 };
        calls += 1;
        if calls > evs.len() + 3 {
            fail(1090);
            break;
        }
        let ty = c % 3;
        let use_read = (c / 3) % 2 == 1;
        let at_end = k >= evs.len();
        if at_end {
            // all events delivered: end of input
            let pending = match &fin {
                Some(DecodeErr::DiscardedBytes(n)) => *n,
                _ => 0,
            };
            if use_read {
                match rd.read::<DecodedBytes>() {
                    Err(ReadDecodedError::IoErr(_, n)) => {
                        if n != pending {
                            fail(1001);
                        }
                    }
                    _ => fail(1002),
                }
            } else {
                match rd.next::<DecodedBytes>() {
                    None => {
                        if pending != 0 {
                            fail(1003);
                        }
                    }
                    Some(Err(ReadDecodedError::IoErr(_, n))) => {
                        if n != pending || pending == 0 {
                            fail(1004);
                        }
                    }
                    _ => fail(1005),
                }
            }
            if rd.next::<DecodedBytes>().is_some() {
                fail(1006);
            }
            break;
        }
        let ev = evs.get(k);
        k += 1;
        match (ty, use_read) {
            (0, false) => match (rd.next::<DecodedBytes>(), ev) {
                (Some(Ok(m)), Some((_, Ev::Data(w)))) => {
                    if m != w.as_slice() {
                        fail(1011);
                    }
                }
                (Some(Err(ReadDecodedError::DecodeErr(e))), Some((_, Ev::Err(w)))) => {
                    if e != *w {
                        fail(1012);
                    }
                }
                _ => fail(1013),
            },
            (0, true) => match (rd.read::<DecodedBytes>(), ev) {
                (Ok(m), Some((_, Ev::Data(w)))) => {
                    if m != w.as_slice() {
                        fail(1014);
                    }
                }
                (Err(ReadDecodedError::DecodeErr(e)), Some((_, Ev::Err(w)))) => {
                    if e != *w {
                        fail(1015);
                    }
                }
                _ => fail(1016),
            },
            (1, false) => match rd.next::<File>() {
                Some(r) => expect_parsed(r, ev, 1020),
                None => fail(1027),
            },
            (1, true) => expect_parsed(rd.read::<File>(), ev, 1030),
            (_, false) => match rd.next::<Parser>() {
                Some(r) => expect_parser(r, ev, 1040),
                None => fail(1047),
            },
            (_, true) => expect_parser(rd.read::<Parser>(), ev, 1050),
        }
    }
    cover(10);
    calls as u32
}

/// Input: [src 0..2][buf 0..2][6 choice bytes][j0][l1 lo][l1 hi][j1][l2 lo][l2 hi][j2] ‖ noise0 ‖ file1 ‖ noise1 ‖ file2 ‖ noise2.
/// Files are framed here with the reference encoder; the reader must yield them in order in every target type.
#[no_mangle]
pub extern "C" fn chk_e2e(ptr: *const u8, n: usize) -> u32 {
    let x = unsafe { input(ptr, n) };
    if x.len() < 15 {
        return 0;
    }
    let (src, bufk) = (x[0], x[1]);
    let choices = &x[2..8];
    let j0 = x[8] as usize;
    let l1 = x[9] as usize | ((x[10] as usize) << 8);
    let j1 = x[11] as usize;
    let l2 = x[12] as usize | ((x[13] as usize) << 8);
    let j2 = x[14] as usize;
    let body = &x[15..];
    if body.len() != j0 + l1 + j1 + l2 + j2 {
        return 0;
    }
    let mut stream: Vec<u8> = Vec::with_capacity(body.len() * 2 + 64);
    let mut o = 0;
    stream.extend_from_slice(&body[o..o + j0]);
    o += j0;
    stream.extend_from_slice(&spec_encode(&body[o..o + l1]));
    o += l1;
    stream.extend_from_slice(&body[o..o + j1]);
    o += j1;
    if l2 > 0 {
        stream.extend_from_slice(&spec_encode(&body[o..o + l2]));
    }
    o += l2;
    stream.extend_from_slice(&body[o..o + j2]);
    let s = stream.as_slice();
    match (src, bufk) {
        (0, 0) => e2e(SmlReader::from_slice(s), s, choices),
        (0, 1) => e2e(SmlReader::with_static_buffer::<512>().from_slice(s), s, choices),
        (0, _) => e2e(SmlReader::with_vec_buffer().from_slice(s), s, choices),
        (1, 0) => e2e(SmlReader::from_iterator(s.iter().copied().filter(|_| true)), s, choices),
        (1, 1) => e2e(SmlReader::with_static_buffer::<512>().from_iterator(s.iter().filter(|_| true)), s, choices),
        (1, _) => e2e(SmlReader::with_vec_buffer().from_iterator(s.iter()), s, choices),
        (_, 0) => e2e(SmlReader::from_reader(s), s, choices),
        (_, 1) => e2e(SmlReader::with_static_buffer::<512>().from_reader(s), s, choices),
        (_, _) => e2e(SmlReader::with_vec_buffer().from_reader(s), s, choices),
    }
}

/// C10 over a non-blocking `io::Read`: the source may answer WouldBlock / Interrupted between any two bytes (script as in
/// chk_faults, restricted to ops 0..2); the caller simply calls `next::<File>()` again. The files obtained must be exactly
/// those of the hand composition (decoder + complete::parse) over the same bytes.
/// Input: [F][F script bytes][l1 lo][l1 hi] ‖ file1 ‖ file2
#[no_mangle]
pub extern "C" fn chk_e2e_nb(ptr: *const u8, n: usize) -> u32 {
    let x = unsafe { input(ptr, n) };
    if x.is_empty() {
        return 0;
    }
    let f = x[0] as usize;
    if x.len() < 3 + f {
        return 0;
    }
    let script = &x[1..1 + f];
    for s in script {
        assume(*s <= 2);
    }
    let l1 = x[1 + f] as usize | ((x[2 + f] as usize) << 8);
    let body = &x[3 + f..];
    if body.len() < l1 {
        return 0;
    }
    let mut stream = spec_encode(&body[..l1]);
    stream.extend_from_slice(&spec_encode(&body[l1..]));
    let (evs, fin) = push_events::<Vec<u8>>(&stream);
    let src = Faulty { data: &stream, pos: 0, script, si: 0, ended: false };
    let mut rd = SmlReader::with_static_buffer::<256>().from_reader(src);
    let mut k = 0usize;
    let mut calls = 0usize;
    loop {
        calls += 1;
        if calls > evs.len() + script.len() + 3 {
            fail(1060);
            break;
        }
        match rd.next::<File>() {
            None => break,
            Some(Err(ReadParsedError::IoErr(e, c))) => {
                if e.kind() == ErrorKind::WouldBlock {
                    if c != 0 {
                        fail(1061);
                    }
                    continue; // try again: reading resumes where it stopped
                }
                fail(1062);
                break;
            }
            Some(r) => {
                expect_parsed(r, evs.get(k), 1070);
                k += 1;
            }
        }
    }
    if k != evs.len() || fin.is_some() {
        fail(1063);
    }
    cover(101);
    k as u32
}
