//! Driver crate for engine E2 (llsym): one `extern "C" fn chk_*(ptr, len) -> u32` per check.
//! The same functions are executed symbolically (from rustc's LLVM IR) and natively (replay),
//! so harness, oracle and real code live in one program and the replay is the identical check.
#![allow(clippy::all)]
#![allow(unused)]

extern "C" {
    /// violation terminal
    pub fn llsym_fail(code: u32);
    /// constrain the path (infeasible paths end silently)
    pub fn llsym_assume(cond: bool);
    /// reachability witness
    pub fn llsym_cover(id: u32);
    /// total number of heap bytes requested so far (alloc + realloc new sizes)
    pub fn llsym_heap_total() -> usize;
}

#[inline(never)]
pub fn fail(code: u32) {
    unsafe { llsym_fail(code) }
}
#[inline(never)]
pub fn assume(c: bool) {
    unsafe { llsym_assume(c) }
}
#[inline(never)]
pub fn cover(id: u32) {
    unsafe { llsym_cover(id) }
}
#[inline(never)]
pub fn heap_total() -> usize {
    unsafe { llsym_heap_total() }
}

pub unsafe fn input<'a>(p: *const u8, n: usize) -> &'a [u8] {
    core::slice::from_raw_parts(p, n)
}

pub mod parser;
pub mod reader;
pub mod refsml;
pub mod spec;
pub mod transport;

/// name → function, for the native replay binary
pub fn table() -> Vec<(&'static str, extern "C" fn(*const u8, usize) -> u32)> {
    use parser::*;
    use transport::*;
    use reader::*;
    let mut v: Vec<(&'static str, extern "C" fn(*const u8, usize) -> u32)> = Vec::new();
    macro_rules! reg { ($($f:ident),+) => { $( v.push((stringify!($f), $f)); )+ } }
    reg!(chk_roundtrip_0, chk_roundtrip_1, chk_roundtrip_2, chk_roundtrip_3, chk_roundtrip_4, chk_roundtrip_5, chk_roundtrip_6,
         chk_roundtrip_7, chk_roundtrip_8, chk_roundtrip_9, chk_roundtrip_10, chk_roundtrip_long, chk_encode, chk_sound, chk_tiling,
         chk_agree, chk_capacity_0, chk_capacity_1, chk_capacity_2, chk_capacity_3, chk_capacity_4, chk_capacity_5, chk_capacity_6,
         chk_capacity_7, chk_capacity_8, chk_capacity_default, chk_resync, chk_cut, chk_concat, chk_total, chk_arraybuf_big, chk_vec_oom);
    reg!(chk_parse_c04, chk_parse_c09, chk_parse_c13, chk_parse_c06, chk_parse_c03, chk_parse_c03w, chk_parse_c12, chk_parse_all, chk_stream_noalloc,
         chk_fix_c04, chk_fix_c09, chk_fix_c13, chk_fix_c06, chk_fix_c03,
         chk_mut_c04, chk_mut_c09, chk_mut_c13, chk_mut_c06, chk_mut_c03, chk_mut_c12, chk_gen_c03);
    reg!(chk_faults, chk_e2e, chk_e2e_nb);
    v
}
