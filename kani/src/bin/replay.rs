//! Native replay of a Kani counterexample: `replay <harness> <hex of concatenated any() values>`.
//! Exit status / stdout: PASS, ASSUME-FAIL, VIOLATED <msg>, PANIC <msg>.
use smlverif_kani::{harness_table, Out, Replay};

fn main() {
    let args: Vec<String> = std::env::args().collect();
    if args.len() == 2 && args[1] == "--list" {
        for (n, _) in harness_table() {
            println!("{}", n);
        }
        return;
    }
    if args.len() == 5 && args[1] == "--fuzz" {
        fuzz(&args[2], args[3].parse().unwrap(), args[4].parse().unwrap());
        return;
    }
    let name = &args[1];
    let hex = args.get(2).cloned().unwrap_or_default();
    let bytes: Vec<u8> = (0..hex.len() / 2).map(|i| u8::from_str_radix(&hex[2 * i..2 * i + 2], 16).unwrap()).collect();
    let table = harness_table();
    let f = table.iter().find(|(n, _)| n == name).expect("unknown harness").1;
    std::panic::set_hook(Box::new(|_| {}));
    let res = std::panic::catch_unwind(move || {
        let mut r = Replay::new(bytes);
        let o = f(&mut r);
        (o, r.underrun)
    });
    match res {
        Ok((Out::Pass, u)) => println!("PASS{}", if u { " (underrun)" } else { "" }),
        Ok((Out::AssumeFail, _)) => println!("ASSUME-FAIL"),
        Ok((Out::Violated(m), _)) => println!("VIOLATED {}", m),
        Err(e) => {
            let msg = if let Some(s) = e.downcast_ref::<String>() { s.clone() } else if let Some(s) = e.downcast_ref::<&str>() { s.to_string() } else { "?".into() };
            println!("PANIC {}", msg.replace('\n', " "));
        }
    }
}

/// Positive control: the harness function on pseudo-random values (biased towards small numbers
/// and protocol bytes). Prints one JSON line with the outcome counts.
fn fuzz(name: &str, seed: u64, count: u64) {
    let table = harness_table();
    let f = table.iter().find(|(n, _)| *n == name).expect("unknown harness").1;
    std::panic::set_hook(Box::new(|_| {}));
    let mut x = seed.wrapping_mul(0x9E3779B97F4A7C15) | 1;
    let mut rnd = move || {
        x ^= x << 13;
        x ^= x >> 7;
        x ^= x << 17;
        x
    };
    let (mut pass, mut assume, mut viol, mut pan) = (0u64, 0u64, 0u64, 0u64);
    let mut first_bad = String::new();
    for _ in 0..count {
        let mut bytes = Vec::with_capacity(160);
        for _ in 0..160 {
            let r = rnd();
            let b = match r % 10 {
                0..=5 => 0u8,
                6 | 7 => ((r >> 8) % 9) as u8,
                8 => [0x1b, 0x01, 0x1a, 0x00][((r >> 8) % 4) as usize],
                _ => (r >> 8) as u8,
            };
            bytes.push(b);
        }
        let hex: String = bytes.iter().map(|b| format!("{:02x}", b)).collect();
        let res = std::panic::catch_unwind(move || {
            let mut r = Replay::new(bytes);
            f(&mut r)
        });
        match res {
            Ok(Out::Pass) => pass += 1,
            Ok(Out::AssumeFail) => assume += 1,
            Ok(Out::Violated(m)) => {
                viol += 1;
                if first_bad.is_empty() {
                    first_bad = format!("{} {}", m, hex);
                }
            }
            Err(_) => {
                pan += 1;
                if first_bad.is_empty() {
                    first_bad = format!("PANIC {}", hex);
                }
            }
        }
    }
    println!("{{\"pass\":{},\"assume_fail\":{},\"violated\":{},\"panicked\":{},\"first_bad\":\"{}\"}}", pass, assume, viol, pan, first_bad.replace('"', "'"));
}
