#!/usr/bin/env python3
"""Writes /verif/MANIFEST.json from the check plan (run after changing lib/plan.py or the texts below)."""
import json, os, sys
sys.path.insert(0, os.path.dirname(os.path.abspath(__file__)))
import plan

VERIF = os.path.dirname(os.path.dirname(os.path.abspath(__file__)))
HOOK_COMMITS = ['524ffb7']

TEXT = {
 'C01': ('Bounded model checking of the real encoders+decoders: llsym explores every path of both encoders x 7 decoder front-ends for ALL payloads of 0..5 (quick) / 0..8 (thorough) fully symbolic bytes plus 255..260-byte payloads with symbolic bytes at the wrap positions; a Kani one-step lemma shows for frames of ANY length that an end sequence with right checksum/alignment/pad count is accepted.',
         'E2 bounded by the number of symbolic payload bytes; E1 lemma inductive under INV (DESIGN 8.1).'),
 'C02': ('Kani one-step lemmas from an arbitrary decoder state (unbounded frame length under INV): a payload is delivered only if CRC, alignment, pad count and pad zeros all check out and it is exactly buffer||withheld zeros-pad; the running checksum covers every consumed byte; the decoded payload grows by exactly the transmitted bytes. llsym: on symbolic streams every delivered payload is preceded by exactly spec_encode(payload).',
         'INV over-approximates reachable decoder states; E2 bounded by symbolic stream bytes.'),
 'C03': ('llsym: 27 generated well-formed files with symbolic content bytes (checksums recomputed by the bit-wise reference CRC) parse in both parsers to exactly what (a) the independent reference reader extracts and (b) the generator\'s own expected-content trace says; plus encodings the generator does not emit (short checksum form, 4-byte choice tags).', 'bounded by skeleton library and number of symbolic content bytes'),
 'C04': ('llsym: both parsers vs an independent reference SML reader on fully symbolic inputs and on corruptions of valid files with and without recomputed checksums: same accept/reject, same content.', 'bounded by input length / one symbolic structural byte per run'),
 'C05': ('Kani: ONE push_byte/finalize/reset from an arbitrary decoder state satisfying INV, for three buffer capacities: no panic, no overflow, all loops within their unwinding bound, INV re-established (induction => any stream length, any call order). Encoder: lock-step simulation lemma shows the assert/unreachable arms are dead. llsym: all transport entry points on symbolic streams, any panic/abort/hang is a violation; ArrayBuf<65600> across the 2^16 boundary; call depth must not grow with the stream length (confirmed natively on a 3 MB stream).', 'INV (DESIGN 8.1); fewer than 2^62 bytes between two boundaries'),
 'C06': ('llsym: every path of both parsers on symbolic inputs and on valid files whose type-length fields are replaced by symbolic ones: panics, aborts, step-budget exhaustion and heap requests beyond a constant multiple of the input length are violations; the streaming parser must not allocate.', 'bounded by input length / symbolic TLF bytes'),
 'C07': ('Kani lock-step simulation: from ANY pair of (real iterator-encoder state, reference Transport-v1 encoder state) in the simulation relation, one next() emits the same byte and stays in the relation => identical output for payloads of every length; buffer encoder on all payloads <= 4/5 bytes into several capacities. llsym: both encoders vs the reference encoder and 21 capacities.', 'simulation relation in kani/src/encstep.rs; E2 bounded by payload length'),
 'C08': ('Kani: the start-sequence matcher equals the longest-prefix matcher (by definition, not a table) from ANY search state => noise of any length, ending in any partial start sequence. llsym: symbolic noise + frame, cut-off frame + frame, from five decoder histories.', 'INV for the search state; E2 bounded by noise length'),
 'C09': ('llsym: lock-step comparison of complete::parse and the streaming parser (events reassembled) on the same symbolic inputs: same content, error iff error with the same kind, list protocol n/n/end.', 'bounded by input length'),
 'C10': ('llsym: SmlReader over slice / iterator / io::Read x default / ArrayBuf<512> / Vec buffers on streams of generated files framed by the reference encoder with symbolic inter-frame noise and a symbolic per-call choice of target type (DecodedBytes, File, Parser) and read vs next: every result equals the hand composition of Decoder + complete::parse / Parser::new; None exactly at the end.', 'bounded by number of files (<=2), noise bytes (<=2 per gap) and symbolic choices (<=3)'),
 'C11': ('llsym: SmlReader over a fault-injecting io::Read whose first F read() calls follow a SYMBOLIC script over {byte, WouldBlock, Interrupted, Other, end-of-input} must report exactly what a hand-driven decoder reports with faults surfacing as documented. Kani: a would-block / other error / end of input arriving in ANY decoder phase (arbitrary INV state): would-block leaves the decoder untouched and reports 0; errors and EOF report exactly the bytes since the last boundary and leave a fresh decoder; next() is None iff nothing pending and stays None.', 'INV; embedded-hal and slice byte sources'),
 'C12': ('Kani differential UNIT harnesses: TLF parser on ALL byte strings of length <= 12 vs the SML rule in 64-bit arithmetic; all eight integer parsers, bool and octet strings vs big-endian two\'s-complement references.', 'private leaf parsers reached through verif-hooks accessors'),
 'C13': ('llsym: on every explored parser path three further next() calls after the first error/None must return None and the item count is <= len+1.', 'bounded by input length'),
 'C14': ('Kani: after every rejecting error, reset() and finalize() the state equals the constructor state; from Done with arbitrary stale fields the next byte behaves as on a new decoder; the checksum register is dead in the search state. llsym: concatenation at six kinds of boundary vs a fresh decoder on symbolic continuations.', 'INV; determinism of push_byte'),
 'C15': ('Kani: DecoderReader::read on one byte == Decoder::push_byte from any decoder state. llsym: the same symbolic stream through 8 front-ends, traces equal modulo the documented tail.', 'INV; E2 bounded by stream length'),
 'C16': ('llsym: ArrayBuf<L> delivers every payload of L symbolic bytes, ArrayBuf<L-1> reports exactly one OutOfMemory and delivers the following frame, L = 0..8; default 8 KiB buffer at 8192/8193.', 'bounded by L'),
 'C17': ('Kani conservation law per step from any INV state: DiscardedBytes(n) == bytes between last boundary and start sequence, rejected frames end at a boundary, every other byte increments the in-flight count by one; finalize/reset/IO errors report exactly that count. llsym: tiling of symbolic streams.', 'INV ties the noise counter to raw_msg_len'),
 'C18': ('Kani: ONE push / extend_from_slice / truncate / clear from an arbitrary raw ArrayBuf<N> state (arbitrary stale bytes) vs an ideal bounded vector, N in {0,1,2,5,8}; equality and from_iter depend only on visible contents; Vec-backed Buffer. llsym: ArrayBuf<65600> filled across the 2^16 boundary.', 'Debug output not solver-checked'),
}
TECH = {
 'C01': 'symbolic execution of rustc LLVM IR (llsym+z3) + Kani/CBMC one-step lemma',
 'C02': 'Kani/CBMC one-step lemmas from arbitrary state + llsym vs reference encoder',
 'C03': 'llsym (z3) differential vs reference SML reader on generated files',
 'C04': 'llsym (z3) differential vs reference SML reader',
 'C05': 'Kani/CBMC inductive one-step harnesses (arbitrary state) + llsym panic monitor',
 'C06': 'llsym (z3) path exploration with panic/allocation/termination monitors',
 'C07': 'Kani/CBMC lock-step simulation lemma + llsym vs reference encoder',
 'C08': 'Kani/CBMC matcher lemma + llsym symbolic noise',
 'C09': 'llsym (z3) lock-step comparison of the two parsers',
 'C10': 'llsym (z3) end-to-end comparison with hand composition',
 'C11': 'Kani/CBMC one-step fault lemmas from arbitrary decoder state + llsym symbolic fault scripts over io::Read',
 'C12': 'Kani/CBMC differential unit harnesses + llsym long/symbolic TLFs at the public API',
 'C13': 'llsym (z3) path exploration',
 'C14': 'Kani/CBMC boundary-state lemmas + llsym concatenation',
 'C15': 'Kani/CBMC read()==push_byte lemma + llsym front-end agreement',
 'C16': 'llsym (z3) symbolic payloads at exact/under capacity',
 'C17': 'Kani/CBMC per-step conservation law + llsym tiling',
 'C18': 'Kani/CBMC one-step vs ideal vector + llsym large-capacity run',
}

def main():
    claimed = [p for p in sorted(TEXT) if (plan.E1.get(p) or plan.e2_checks(p, 'quick', 0))]
    checks = []
    for p in claimed:
        eng = []
        if plan.E1.get(p): eng.append('E1')
        if plan.e2_checks(p, 'quick', 0): eng.append('E2')
        checks.append({
            'property_id': p,
            'quick_cmd': './check %s --tier quick' % p,
            'thorough_cmd': './check %s --tier thorough' % p,
            'evidence_file': '/verif/evidence/%s.json' % p,
            'replay_cmd_template': './check %s --replay {path}' % p,
            'engine': '+'.join(eng),
            'level_claimed': {'category': 'model_checking', 'text': TEXT[p][0], 'design_ref': 'DESIGN.md section 3 (%s)' % p},
            'level_note': TEXT[p][1] + '; trusted: rustc lowering, CBMC/CaDiCaL, z3, llsym IR semantics (validated against native runs each run)',
            'technique': TECH[p],
        })
    na = []
    allp = ['C%02d' % i for i in range(1, 19)]
    reasons = getattr(plan, 'NOT_APPLICABLE', {})
    for p in allp:
        if p not in claimed:
            na.append({'property_id': p, 'reason': reasons.get(p, 'check not built yet in this round (engine E2 check pending); no solver-based claim is made')})
    m = {
        'version': 1,
        'setup_cmd': './setup.sh',
        'hooks': {
            'guard': 'cargo feature verif-hooks (sml-rs)',
            'enable': 'path dependency sml-rs = { path = "/repo", features = ["verif-hooks", ...] } in /verif/kani/Cargo.toml (engine E1); engine E2 uses no hooks',
            'baseline_off_cmd': 'cd /repo && cargo test --workspace --no-fail-fast --offline',
            'source_commits': HOOK_COMMITS,
            'add_only': True,
        },
        'engines': [
            {'name': 'E1', 'path': '/verif/kani', 'serves_properties': [p for p in claimed if plan.E1.get(p)], 'kind_free_text': 'Kani 0.68 / CBMC 6.11 harness crate: STEP (one call from an arbitrary state under INV), UNIT and FUNC harnesses; counterexamples replayed natively through the identical generic harness function'},
            {'name': 'E2', 'path': '/verif/llsym', 'serves_properties': [p for p in claimed if plan.e2_checks(p, 'quick', 0)], 'kind_free_text': 'llsym: symbolic executor for rustc-emitted LLVM IR of /repo + /verif/drivers (python + z3, GF(2) layer for CRC), path exploration by decision prefixes over 16 workers, models replayed through the same check function compiled natively'},
        ],
        'checks': checks,
        'not_applicable': na,
        'notes': 'exit 0 = held within the stated bounds; exit 1 = natively reproduced violation; exit 2 = inconclusive (never reported as success). Bounds and queries are in evidence/<id>.json.',
    }
    json.dump(m, open(os.path.join(VERIF, 'MANIFEST.json'), 'w'), indent=1)
    print('claimed:', claimed, 'n/a:', [x['property_id'] for x in na])

if __name__ == '__main__':
    main()
