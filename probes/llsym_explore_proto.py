import sys, time
sys.path.insert(0, '/tmp/llsym_proto')
from llsym import *
import z3

def explore(mod, fname, mkargs, max_paths=10**9, tlimit=600):
    """re-execution based DFS over symbolic branches. mkargs(st) -> args"""
    work = [[]]       # decision prefixes
    npaths = 0; panics = []; t0 = time.time(); steps = 0; results = {}
    while work and npaths < max_paths and time.time() - t0 < tlimit:
        prefix = work.pop()
        st = State(mod); init_globals(st)
        args = mkargs(st)
        trace = []
        def decide(cond):
            k = len(trace)
            if k < len(prefix):
                d = prefix[k]
            else:
                can_t = st.check(cond); can_f = st.check(z3.Not(cond))
                if can_t and can_f:
                    work.append(prefix[:0] + [x for x in trace] + [False])
                    d = True
                elif can_t: d = True
                elif can_f: d = False
                else: raise Panic('infeasible path')
            trace.append(d)
            st.pc.append(cond if d else z3.Not(cond))
            return d
        try:
            r = run_function(st, fname, args, decide)
            key = r if isinstance(r, int) else 'sym'
            results[key] = results.get(key, 0) + 1
        except Panic as e:
            m = None
            s = z3.Solver(); [s.add(c) for c in st.pc]
            if s.check() == z3.sat: m = s.model()
            panics.append((str(e), m))
        # fix: decisions recorded in `trace` must be complete prefix for alternatives
        npaths += 1; steps += st.steps
    return npaths, steps, time.time() - t0, panics, results, len(work)

if __name__ == '__main__':
    mod = load_modules('/tmp/llprobe/target/release/deps/*.ll')
    what = sys.argv[1]; K = int(sys.argv[2])
    if what in ('stream', 'complete'):
        def mk(st):
            cells = [z3.BitVec('b%d' % i, 8) for i in range(K)]
            a = st.mem.alloc(K, 'input', cells); return [a, K]
        fn = '@drv_parse_stream' if what == 'stream' else '@drv_parse_complete'
    elif what == 'decode':
        START = [0x1b] * 4 + [1] * 4
        def mk(st):
            cells = START + [z3.BitVec('b%d' % i, 8) for i in range(K)]
            a = st.mem.alloc(len(cells), 'input', cells); o = st.mem.alloc(8, 'out', [0] * 8); return [a, len(cells), o]
        fn = '@drv_decode'
    n, steps, t, panics, results, left = explore(mod, fn, mk, tlimit=int(sys.argv[3]) if len(sys.argv) > 3 else 300)
    print('%s K=%d: paths=%d steps=%d time=%.1fs panics=%d worklist_left=%d' % (what, K, n, steps, t, len(panics), left))
    print('results:', dict(sorted(results.items(), key=lambda kv: str(kv[0]))[:12]))
    seen = set()
    for msg, m in panics:
        if msg in seen: continue
        seen.add(msg)
        if m is not None:
            vals = {str(d): m[d].as_long() for d in m.decls()}
            inp = [vals.get('b%d' % i, 0) for i in range(K)]
            print('PANIC', msg[:120], 'input=', bytes(inp).hex())
        else: print('PANIC', msg[:120])
