//! Nondeterministic value source: `kani::any()` under Kani, a byte stream natively.

#[derive(Debug, Clone, PartialEq, Eq)]
pub enum Out {
    /// every `check!` on the executed path held
    Pass,
    /// an `assume!` was false for these values (the values are outside the harness' domain)
    AssumeFail,
    /// a `check!` failed; the message names the lemma
    Violated(&'static str),
}

pub trait Nd {
    fn u8(&mut self) -> u8;
    fn u16(&mut self) -> u16;
    fn u32(&mut self) -> u32;
    fn u64(&mut self) -> u64;
    fn usize(&mut self) -> usize;
    fn bool(&mut self) -> bool;
    fn arr<const N: usize>(&mut self) -> [u8; N];
}

#[cfg(kani)]
pub struct K;

#[cfg(kani)]
impl Nd for K {
    fn u8(&mut self) -> u8 {
        kani::any()
    }
    fn u16(&mut self) -> u16 {
        kani::any()
    }
    fn u32(&mut self) -> u32 {
        kani::any()
    }
    fn u64(&mut self) -> u64 {
        kani::any()
    }
    fn usize(&mut self) -> usize {
        kani::any()
    }
    fn bool(&mut self) -> bool {
        kani::any()
    }
    fn arr<const N: usize>(&mut self) -> [u8; N] {
        kani::any()
    }
}

/// Native source: the concatenation of the byte vectors Kani's concrete playback prints
/// (one vector per `kani::any()` call, little endian), consumed by size.
pub struct Replay {
    pub bytes: Vec<u8>,
    pub pos: usize,
    pub underrun: bool,
}

impl Replay {
    pub fn new(bytes: Vec<u8>) -> Self {
        Replay {
            bytes,
            pos: 0,
            underrun: false,
        }
    }
    fn take(&mut self, n: usize) -> Vec<u8> {
        let mut v = Vec::with_capacity(n);
        for _ in 0..n {
            if self.pos < self.bytes.len() {
                v.push(self.bytes[self.pos]);
                self.pos += 1;
            } else {
                self.underrun = true;
                v.push(0);
            }
        }
        v
    }
}

impl Nd for Replay {
    fn u8(&mut self) -> u8 {
        self.take(1)[0]
    }
    fn u16(&mut self) -> u16 {
        let v = self.take(2);
        u16::from_le_bytes([v[0], v[1]])
    }
    fn u32(&mut self) -> u32 {
        let v = self.take(4);
        u32::from_le_bytes([v[0], v[1], v[2], v[3]])
    }
    fn u64(&mut self) -> u64 {
        let v = self.take(8);
        let mut a = [0u8; 8];
        a.copy_from_slice(&v);
        u64::from_le_bytes(a)
    }
    fn usize(&mut self) -> usize {
        self.u64() as usize
    }
    fn bool(&mut self) -> bool {
        self.take(1)[0] & 1 != 0
    }
    fn arr<const N: usize>(&mut self) -> [u8; N] {
        let v = self.take(N);
        let mut a = [0u8; N];
        a.copy_from_slice(&v);
        a
    }
}
