"""Generator of abstract SML files -> wire bytes, checksum fix-up table and the offsets of
*content* bytes (bytes whose value does not steer the grammar and may be made symbolic).

Written from the SML grammar (BSI TR-03109-1 Anlage IV), independent of sml-rs."""


def crc16_x25(data):
    reg = 0xffff
    for b in data:
        reg ^= b
        for _ in range(8):
            reg = (reg >> 1) ^ 0x8408 if reg & 1 else reg >> 1
    return reg ^ 0xffff


class B:
    """byte builder that remembers which offsets are content"""
    def __init__(self):
        self.b = bytearray(); self.content = []; self.fix = []; self.desc = []; self.trace = []

    def raw(self, bs, content=False):
        if content:
            self.content.extend(range(len(self.b), len(self.b) + len(bs)))
        self.b.extend(bs)

    # ---- type-length field. form: 'min' | 'pad' (one extra leading zero nibble byte)
    def tl(self, ty, length, form='min'):
        """ty: 0 octets, 4 bool, 5 int, 6 uint, 7 list. `length` = data length (non-list) or element count (list)."""
        def enc(total_extra):
            v = length + (0 if ty == 7 else total_extra)
            return v
        # find the number of TL bytes needed
        n = 1
        while True:
            v = length + (0 if ty == 7 else n)
            if v < (1 << (4 * n)): break
            n += 1
        if form == 'pad':
            n += 1
            v = length + (0 if ty == 7 else n)
            if v >= (1 << (4 * n)):      # adding our own size overflowed into the next nibble
                n += 1; v = length + (0 if ty == 7 else n)
        nibs = [(v >> (4 * (n - 1 - i))) & 0xf for i in range(n)]
        out = []
        for i, nb in enumerate(nibs):
            byte = nb
            if i == 0: byte |= ty << 4
            if i < n - 1: byte |= 0x80
            out.append(byte)
        self.raw(bytes(out))

    def octets(self, data, form='min'):
        self.tl(0, len(data), form); off = len(self.b); self.raw(data, content=True)
        return [0x01, off & 0xff, off >> 8, len(data) & 0xff, len(data) >> 8]

    def uint(self, val, width, form='min'):
        self.tl(6, width, form); off = len(self.b); self.raw(val.to_bytes(width, 'big'), content=True)
        return [0x03, off & 0xff, off >> 8, width]

    def sint(self, val, width, form='min'):
        self.tl(5, width, form); off = len(self.b); self.raw((val & ((1 << (8 * width)) - 1)).to_bytes(width, 'big'), content=True)
        return [0x04, off & 0xff, off >> 8, width]

    def boolean(self, v):
        self.tl(4, 1); off = len(self.b); self.raw(bytes([1 if v else 0]), content=True)
        return [0x06, off & 0xff, off >> 8]

    def none(self):
        self.raw(b'\x01')
        return [0x02]

    def lst(self, n, form='min'):
        self.tl(7, n, form)

    def time(self, sec, kind='list', width=4):
        if kind == 'bare':
            self.tl(6, 4); off = len(self.b); self.raw(sec.to_bytes(4, 'big'), content=True)
            return [0x05, off & 0xff, off >> 8, 4]
        self.lst(2); self.tl(6, 1); self.raw(b'\x01')
        t = self.uint(sec, width)
        return [0x05] + t[1:]

    # ---- messages
    def begin_msg(self, tid, group=0, abort=0, form='min'):
        self._start = len(self.b)
        self.lst(6, form)
        self.trace += [0xA0]
        self.trace += self.octets(tid)
        self.trace += self.uint(group, 1)
        self.trace += self.uint(abort, 1)

    def end_msg(self, crc_width=2):
        at = len(self.b)
        self.raw(b'\x63')
        c = crc16_x25(self.b[self._start:at])
        self.fix.append((self._start, at + 1))
        self.raw(bytes([c & 0xff, c >> 8]))
        self.raw(b'\x00')

    def body(self, tag):
        # the choice tag steers the grammar: structural, never symbolic
        self.lst(2); self.tl(6, 2); self.raw(tag.to_bytes(2, 'big'))


def opt(b, present, f):
    if present: return f()
    return b.none()


def opt_octets(b, v):
    """optional octet string; a present-but-empty one needs a non-minimal TL field because `01` means absent"""
    if v is None: return b.none()
    if len(v) == 0: return b.octets(v, 'pad')
    return b.octets(v)


def msg_open(b, tid=b'\x01\x02', codepage=None, client=None, req=b'\xaa\xbb', server=b'\x0a\x01\x02\x03', ref_time=None, version=None, tform='min'):
    b.begin_msg(tid)
    b.body(0x0101)
    b.lst(6)
    b.trace += [0xB1]
    b.trace += opt_octets(b, codepage)
    b.trace += opt_octets(b, client)
    b.trace += b.octets(req); b.trace += b.octets(server, tform)
    b.trace += opt(b, ref_time is not None, lambda: b.time(*ref_time))
    b.trace += opt(b, version is not None, lambda: b.uint(version, 1))
    b.end_msg()


def msg_close(b, tid=b'\x09', sig=None):
    b.begin_msg(tid)
    b.body(0x0201)
    b.lst(1)
    b.trace += [0xB2]
    b.trace += opt_octets(b, sig)
    b.end_msg()


def entry(b, name=b'\x01\x00\x01\x08\x00\xff', status=None, val_time=None, unit=None, scaler=None, value=('u', 5, 1), sig=None):
    b.lst(7)
    b.trace += [0xC0]
    b.trace += b.octets(name)
    b.trace += opt(b, status is not None, lambda: b.uint(status[0], status[1]))
    b.trace += opt(b, val_time is not None, lambda: b.time(*val_time))
    b.trace += opt(b, unit is not None, lambda: b.uint(unit, 1))
    b.trace += opt(b, scaler is not None, lambda: b.sint(scaler, 1))
    k = value[0]
    if k == 'u': b.trace += [0x13] + b.uint(value[1], value[2])
    elif k == 'i': b.trace += [0x12] + b.sint(value[1], value[2])
    elif k == 'b': b.trace += [0x10] + b.boolean(value[1])
    elif k == 'o': b.trace += [0x11] + b.octets(value[1], value[2] if len(value) > 2 else 'min')
    elif k == 't':
        b.lst(2); b.tl(6, 1); b.raw(b'\x01'); b.trace += [0x14] + b.time(*value[1:])
    b.trace += opt_octets(b, sig)


def msg_getlist(b, entries, tid=b'\x05\x06\x07', client=None, server=b'\x0a\x01', name=None, sensor_time=None, sig=None, gw_time=None, lform='min'):
    b.begin_msg(tid)
    b.body(0x0701)
    b.lst(7)
    b.trace += [0xB3]
    b.trace += opt_octets(b, client)
    b.trace += b.octets(server)
    b.trace += opt_octets(b, name)
    b.trace += opt(b, sensor_time is not None, lambda: b.time(*sensor_time))
    b.lst(len(entries), lform)
    b.trace += [0x07, len(entries)]
    for e in entries: entry(b, **e)
    b.trace += opt_octets(b, sig)
    b.trace += opt(b, gw_time is not None, lambda: b.time(*gw_time))
    b.end_msg()


def library():
    """name -> B"""
    L = {}

    def add(name, f):
        b = B(); f(b); L[name] = b

    add('close', lambda b: msg_close(b, tid=b'\xdd\x43\x44\x00'))
    add('close_sig', lambda b: msg_close(b, sig=b'\x11\x22\x33'))
    add('open_min', lambda b: msg_open(b))
    add('open_full', lambda b: msg_open(b, codepage=b'\x49', client=b'\x01\x02\x03', ref_time=(0x01020304,), version=1))
    add('open_bare_time', lambda b: msg_open(b, ref_time=(0x00010203, 'bare')))
    add('open_short_time', lambda b: msg_open(b, ref_time=(0x0102, 'list', 2)))
    add('open_padtlf', lambda b: msg_open(b, tform='pad'))
    add('list1', lambda b: msg_getlist(b, [dict(status=(0x82, 1), unit=30, scaler=-1, value=('u', 0x0102030405, 5))]))
    add('list_vals_int', lambda b: msg_getlist(b, [dict(value=('i', -1, 1)), dict(value=('i', -300, 2)), dict(value=('i', 0x123456, 3)), dict(value=('i', -5, 5)), dict(value=('i', 7, 8))]))
    add('list_vals_uint', lambda b: msg_getlist(b, [dict(value=('u', 200, 1)), dict(value=('u', 60000, 2)), dict(value=('u', 0x1234567, 4)), dict(value=('u', 1 << 40, 6)), dict(value=('u', 1 << 63, 8))]))
    add('list_vals_misc', lambda b: msg_getlist(b, [dict(value=('b', True)), dict(value=('o', b'hello')), dict(value=('t', 0x0a0b0c0d)), dict(value=('t', 0x0a0b0c0d, 'bare')), dict(value=('o', b''))]))
    add('list_status', lambda b: msg_getlist(b, [dict(status=(1, 1)), dict(status=(0x1234, 2)), dict(status=(0x123456, 3)), dict(status=(1 << 33, 5)), dict(status=(1 << 60, 8))]))
    add('list_opts', lambda b: msg_getlist(b, [dict(val_time=(5,), unit=27, scaler=3, sig=b'\x99\x98'), dict(val_time=(6, 'bare'), sig=b'')], client=b'\xc1', name=b'\x01\x00\x62\x0a\xff\xff', sensor_time=(100,), sig=b'\x51\x52', gw_time=(200, 'bare')))
    add('list0', lambda b: msg_getlist(b, []))
    add('list15', lambda b: msg_getlist(b, [dict(name=bytes([i]), value=('u', i, 1)) for i in range(15)]))
    add('list16', lambda b: msg_getlist(b, [dict(name=bytes([i]), value=('u', i, 1)) for i in range(16)]))
    add('list17', lambda b: msg_getlist(b, [dict(name=bytes([i]), value=('u', i, 1)) for i in range(17)]))
    add('list_padtlf', lambda b: msg_getlist(b, [dict(value=('o', b'abc', 'pad'))], lform='pad'))
    add('octet15', lambda b: msg_getlist(b, [dict(value=('o', bytes(range(14))))]))      # 14 + 1 = 0x0f: largest 1-byte TLF
    add('octet16', lambda b: msg_getlist(b, [dict(value=('o', bytes(range(15))))]))      # needs a 2-byte TLF
    add('octet40', lambda b: msg_getlist(b, [dict(value=('o', bytes(range(40))))]))

    add('list_empty_opts', lambda b: msg_getlist(b, [dict(sig=b''), dict(value=('o', b'', 'pad'))], client=b'', name=b'', sig=b''))
    add('close_empty_sig', lambda b: msg_close(b, sig=b''))
    add('open_empty_opts', lambda b: msg_open(b, codepage=b'', client=b''))

    add('list_min8', lambda b: msg_getlist(b, [dict(name=b'', value=('o', b'')) for _ in range(9)]))

    def min8_close(b):
        msg_getlist(b, [dict(name=b'', value=('o', b'')) for _ in range(12)])
        msg_close(b)
    add('list_min8_close', min8_close)

    def full(b):
        msg_open(b, ref_time=(1000,))
        msg_getlist(b, [dict(status=(0x1d, 2), unit=30, scaler=-1, value=('i', 123456, 5)), dict(value=('o', b'EMH'))], sensor_time=(1001,))
        msg_close(b)
    add('file3', full)
    return L


def transport_encode(p):
    """Transport v1 frame of payload p (python reference, used to build concrete streams)"""
    out = bytearray(b'\x1b\x1b\x1b\x1b\x01\x01\x01\x01')
    run = 0
    for b in p:
        out.append(b)
        if b == 0x1b:
            run += 1
            if run == 4:
                out += b'\x1b' * 4; run = 0
        else:
            run = 0
    pad = (4 - len(out) % 4) % 4
    out += bytes(pad)
    out += b'\x1b\x1b\x1b\x1b\x1a' + bytes([pad])
    c = crc16_x25(out)
    out += bytes([c & 0xff, c >> 8])
    return bytes(out)


def header_with_trace(b):
    """input prefix for drivers::parser::chk_gen_c03: [k][fixups][trace len u16][trace bytes]"""
    h = [len(b.fix)]
    for (start, at) in b.fix:
        h += [start & 0xff, start >> 8, at & 0xff, at >> 8]
    t = list(b.trace) + [0xFF]
    h += [len(t) & 0xff, len(t) >> 8] + t
    return h


def header(b, mode=0, p0=0, p1=0, v0=0, v1=0):
    """input prefix understood by drivers::parser::mutated"""
    h = [len(b.fix)]
    for (start, at) in b.fix:
        h += [start & 0xff, start >> 8, at & 0xff, at >> 8]
    h += [mode, p0, p1, v0, v1]
    return h


if __name__ == '__main__':
    for name, b in library().items():
        print(name, len(b.b), len(b.content), bytes(b.b).hex())
