"""Parser for the subset of textual LLVM IR that rustc emits for sml-rs + drivers.

Produces a `Program`: types, globals (with initialisers) and functions whose instructions are
decoded lazily into tuples (see `decode_inst`). Private/internal symbols are module-local in
LLVM, so every module gets its own namespace for them."""
import re

TOK = re.compile(r'''
   (?P<str>c"(?:[^"\\]|\\[0-9A-Fa-f]{2}|\\\\)*")
 | (?P<gid>@"[^"]*"|@[\w.$\-]+)
 | (?P<lid>%"[^"]*"|%[\w.$\-]+)
 | (?P<meta>![\w.]*(?:\([^)]*\))?)
 | (?P<attr>\#\d+)
 | (?P<num>-?\d+)
 | (?P<id>[A-Za-z_][\w.]*)
 | (?P<punct>\.\.\.|<\{|\}>|[(){}\[\]<>,=*:])
''', re.X)


class IRSyntax(Exception):
    pass


def tokenize(s):
    out = []
    pos = 0
    n = len(s)
    while pos < n:
        c = s[pos]
        if c in ' \t\n':
            pos += 1
            continue
        if c == ';':
            break
        m = TOK.match(s, pos)
        if not m:
            raise IRSyntax('tok: ' + s[pos:pos + 60])
        out.append(m.group(0))
        pos = m.end()
    return out


# ----------------------------------------------------------------------------- types
class IntTy:
    __slots__ = ('bits',)
    def __init__(s, bits): s.bits = bits
    def __repr__(s): return 'i%d' % s.bits
class PtrTy:
    def __repr__(s): return 'ptr'
class VoidTy:
    def __repr__(s): return 'void'
class ArrTy:
    __slots__ = ('n', 'el')
    def __init__(s, n, el): s.n = n; s.el = el
    def __repr__(s): return '[%d x %r]' % (s.n, s.el)
class StructTy:
    __slots__ = ('els', 'packed')
    def __init__(s, els, packed=False): s.els = els; s.packed = packed
    def __repr__(s): return '{%s}' % ','.join(map(repr, s.els))
class NamedTy:
    __slots__ = ('name',)
    def __init__(s, name): s.name = name
    def __repr__(s): return s.name

PTR = PtrTy()
VOID = VoidTy()
I1 = IntTy(1)
I8 = IntTy(8)
I64 = IntTy(64)

ATTR_WORDS = set('''noundef nonnull noalias nocapture readonly readnone writeonly zeroext signext inreg returned
 nofree nosync nounwind willreturn immarg allocptr allocalign nonlazybind uwtable mustprogress dead_on_unwind writable
 dead_on_return nuw nsw exact inbounds disjoint samesign nneg volatile tail musttail notail fastcc ccc coldcc
 internal private hidden dso_local local_unnamed_addr unnamed_addr external available_externally linkonce_odr weak_odr weak
 constant global thread_local protected default swifterror nest cold noinline inlinehint alwaysinline norecurse
 noreturn optsize minsize speculatable nocallback nomerge nofpclass atomic monotonic acquire release seq_cst unordered'''.split())
PAREN_ATTRS = ('dereferenceable', 'dereferenceable_or_null', 'captures', 'sret', 'byval', 'range', 'memory', 'initializes',
               'nofpclass', 'elementtype', 'allocsize', 'byref', 'preallocated', 'inalloca', 'alloc_family', 'allockind')


class P:
    """token stream"""
    __slots__ = ('t', 'i', 'prog')
    def __init__(s, toks, prog): s.t = toks; s.i = 0; s.prog = prog
    def peek(s): return s.t[s.i] if s.i < len(s.t) else None
    def next(s):
        x = s.t[s.i]; s.i += 1; return x
    def accept(s, x):
        if s.i < len(s.t) and s.t[s.i] == x:
            s.i += 1; return True
        return False
    def expect(s, x):
        y = s.next()
        if y != x: raise IRSyntax('expected %r got %r in %r' % (x, y, ' '.join(s.t[:60])))
    def ty(s):
        t = s.next()
        if t == 'ptr': r = PTR
        elif t == 'void': r = VOID
        elif t[0] == 'i' and t[1:].isdigit(): r = IntTy(int(t[1:]))
        elif t == '[':
            n = int(s.next()); s.expect('x'); el = s.ty(); s.expect(']'); r = ArrTy(n, el)
        elif t == '{' or t == '<{':
            els = []
            close = '}' if t == '{' else '}>'
            if not s.accept(close):
                while True:
                    els.append(s.ty())
                    if s.accept(close): break
                    s.expect(',')
            r = StructTy(els, packed=(t == '<{'))
        elif t[0] == '%': r = NamedTy(t)
        elif t == '<':
            raise IRSyntax('vector type not supported: ' + ' '.join(s.t[:40]))
        else:
            raise IRSyntax('type? %r in %r' % (t, ' '.join(s.t[:40])))
        return r
    def skip_attrs(s):
        while True:
            t = s.peek()
            if t is None: return
            if t in ATTR_WORDS:
                s.i += 1; continue
            if t == 'align':
                s.i += 2; continue
            if t in PAREN_ATTRS:
                s.i += 1
                if s.peek() == '(':
                    depth = 0
                    while True:
                        x = s.next()
                        if x == '(': depth += 1
                        elif x == ')':
                            depth -= 1
                            if depth == 0: break
                continue
            if t[0] == '#':
                s.i += 1; continue
            return


class Func:
    __slots__ = ('name', 'ret', 'params', 'blocks', 'entry', 'mod', 'decoded', 'byval')
    def __init__(s, name, ret, params, mod):
        s.name = name; s.ret = ret; s.params = params; s.blocks = {}; s.entry = None; s.mod = mod; s.decoded = {}; s.byval = None


class Program:
    def __init__(s):
        s.types = {}
        s.globals = {}     # resolved name -> (ty, init const or None, constant?)
        s.funcs = {}       # resolved name -> Func
        s.decls = set()
        s.nmods = 0

    # -- layout
    def resolve(s, t):
        while isinstance(t, NamedTy): t = s.types[t.name]
        return t
    def align_of(s, t):
        t = s.resolve(t)
        if isinstance(t, IntTy):
            b = (t.bits + 7) // 8
            a = 1
            while a < b: a *= 2
            return min(a, 16)
        if isinstance(t, PtrTy): return 8
        if isinstance(t, ArrTy): return s.align_of(t.el)
        if isinstance(t, StructTy):
            if t.packed: return 1
            return max([s.align_of(e) for e in t.els] or [1])
        raise TypeError(t)
    def size_of(s, t):
        t = s.resolve(t)
        if isinstance(t, IntTy):
            b = (t.bits + 7) // 8
            a = s.align_of(t)
            return (b + a - 1) // a * a
        if isinstance(t, PtrTy): return 8
        if isinstance(t, ArrTy): return t.n * s.size_of(t.el)
        if isinstance(t, StructTy):
            off = 0
            for e in t.els:
                if not t.packed:
                    a = s.align_of(e); off = (off + a - 1) // a * a
                off += s.size_of(e)
            if not t.packed:
                a = s.align_of(t); off = (off + a - 1) // a * a
            return off
        raise TypeError(t)
    def field_off(s, t, idx):
        t = s.resolve(t)
        off = 0
        for k, e in enumerate(t.els):
            if not t.packed:
                a = s.align_of(e); off = (off + a - 1) // a * a
            if k == idx: return off
            off += s.size_of(e)
        raise IndexError(idx)
    def bits_of(s, ty):
        rt = s.resolve(ty)
        if isinstance(rt, PtrTy): return 64
        if isinstance(rt, IntTy): return rt.bits
        raise TypeError('bits_of %r' % (rt,))


def cstr(tok):
    s = tok[2:-1]; out = bytearray(); i = 0
    while i < len(s):
        if s[i] == '\\':
            if s[i + 1] == '\\': out.append(92); i += 2
            else: out.append(int(s[i + 1:i + 3], 16)); i += 3
        else: out.append(ord(s[i])); i += 1
    return bytes(out)


class ModCtx:
    """per-module symbol scope: private/internal names are suffixed with the module index"""
    def __init__(s, prog, idx):
        s.prog = prog; s.idx = idx; s.local = set()
    def sym(s, name):
        if name in s.local: return '%s#%d' % (name, s.idx)
        return name


# constants: ('int', v) | ('bytes', b) | ('struct', [(ty,c)], packed) | ('array', [(ty,c)]) | ('zero',) | ('undef',) | ('gref', name, off)
def parse_const(p, ty, mc):
    t = p.peek()
    if t[0] == 'c' and t[1:2] == '"':
        p.next(); return ('bytes', cstr(t))
    if t == 'zeroinitializer': p.next(); return ('zero',)
    if t in ('undef', 'poison'): p.next(); return ('undef',)
    if t == 'null': p.next(); return ('int', 0)
    if t == 'true': p.next(); return ('int', 1)
    if t == 'false': p.next(); return ('int', 0)
    if t[0] == '@': p.next(); return ('gref', mc.sym(t), 0)
    if t[0] == '-' or t[0].isdigit(): p.next(); return ('int', int(t))
    if t in ('{', '<{'):
        p.next(); close = '}' if t == '{' else '}>'
        els = []
        if not p.accept(close):
            while True:
                et = p.ty(); els.append((et, parse_const(p, et, mc)))
                if p.accept(close): break
                p.expect(',')
        return ('struct', els, t == '<{')
    if t == '[':
        p.next(); els = []
        while True:
            et = p.ty(); els.append((et, parse_const(p, et, mc)))
            if p.accept(']'): break
            p.expect(',')
        return ('array', els)
    if t == 'getelementptr':
        p.next(); p.skip_attrs(); p.expect('(')
        bt = p.ty(); p.expect(','); pt = p.ty(); base = parse_const(p, pt, mc)
        idxs = []
        while p.accept(','):
            p.skip_attrs(); it = p.ty(); idxs.append(parse_const(p, it, mc)[1])
        p.expect(')')
        off = gep_offset_const(p.prog, bt, idxs)
        if base[0] != 'gref': raise IRSyntax('gep const base')
        return ('gref', base[1], base[2] + off)
    if t in ('inttoptr', 'ptrtoint', 'bitcast'):
        p.next(); p.expect('('); it = p.ty(); c = parse_const(p, it, mc); p.expect('to'); p.ty(); p.expect(')')
        return c
    raise IRSyntax('const? %r  %r' % (t, ' '.join(p.t[max(0, p.i - 5):p.i + 10])))


def gep_offset_const(prog, bt, idxs):
    off = idxs[0] * prog.size_of(bt); t = bt
    for ix in idxs[1:]:
        t = prog.resolve(t)
        if isinstance(t, StructTy): off += prog.field_off(t, ix); t = t.els[ix]
        else: off += ix * prog.size_of(t.el); t = t.el
    return off


LOCAL_LINK = ('private', 'internal')


def parse_module(path, prog):
    idx = prog.nmods; prog.nmods += 1
    mc = ModCtx(prog, idx)
    lines = open(path).read().split('\n')
    # pass 1: collect module-local symbol names
    for ln in lines:
        if ln.startswith('@'):
            m = re.match(r'(@"[^"]*"|@[\w.$\-]+) = (\w+)', ln)
            if m and m.group(2) in LOCAL_LINK: mc.local.add(m.group(1))
        elif ln.startswith('define'):
            m = re.match(r'define (\w+)', ln)
            if m and m.group(1) in LOCAL_LINK:
                n = re.search(r'(@"[^"]*"|@[\w.$\-]+)\(', ln)
                mc.local.add(n.group(1))
    i = 0
    n = len(lines)
    while i < n:
        ln = lines[i]
        if ln.startswith('%') and ' = type ' in ln:
            p = P(tokenize(ln), prog)
            name = p.next(); p.expect('='); p.expect('type')
            if p.peek() == 'opaque': prog.types[name] = StructTy([])
            else: prog.types[name] = p.ty()
        elif ln.startswith('@'):
            p = P(tokenize(ln), prog)
            name = mc.sym(p.next()); p.expect('=')
            is_const = False
            while p.peek() in ATTR_WORDS:
                if p.peek() == 'constant': is_const = True
                p.next()
            ty = p.ty()
            init = parse_const(p, ty, mc) if p.peek() not in (',', None) else None
            if name not in prog.globals or prog.globals[name][1] is None:
                prog.globals[name] = (ty, init, is_const)
        elif ln.startswith('declare'):
            m = re.search(r'(@"[^"]*"|@[\w.$\-]+)\(', ln)
            prog.decls.add(m.group(1))
        elif ln.startswith('define'):
            p = P(tokenize(ln[:ln.rindex('{')]), prog)
            p.expect('define'); p.skip_attrs()
            ret = p.ty(); name = mc.sym(p.next()); p.expect('(')
            params = []
            byval = []
            if not p.accept(')'):
                while True:
                    if p.peek() == '...': p.next()
                    else:
                        t = p.ty()
                        # note byval
                        j = p.i
                        p.skip_attrs()
                        if 'byval' in p.t[j:p.i]: byval.append(len(params))
                        params.append((t, p.next()))
                    if p.accept(')'): break
                    p.expect(',')
            f = Func(name, ret, params, mc)
            f.byval = byval
            if byval: raise IRSyntax('byval parameters not supported: ' + name)
            i += 1
            cur = None
            while not lines[i].startswith('}'):
                l = lines[i]; i += 1
                s = l.strip()
                if not s or s[0] == ';': continue
                if l[0] != ' ':
                    m = re.match(r'^("[^"]*"|[\w.$\-]+):', l)
                    if m:
                        cur = m.group(1).strip('"'); f.blocks[cur] = []
                        if f.entry is None: f.entry = cur
                        continue
                if s.startswith('switch') and s.endswith('['):
                    while not lines[i].strip().startswith(']'):
                        s += ' ' + lines[i].strip(); i += 1
                    s += ' ]'; i += 1
                f.blocks[cur].append(s)
            prog.funcs[name] = f
        i += 1


def load_program(paths):
    prog = Program()
    for f in paths: parse_module(f, prog)
    return prog


# ----------------------------------------------------------------------------- instruction decoding
BIN = {'add', 'sub', 'mul', 'and', 'or', 'xor', 'shl', 'lshr', 'ashr', 'udiv', 'urem', 'sdiv', 'srem'}
CASTS = {'zext', 'sext', 'trunc', 'ptrtoint', 'inttoptr', 'bitcast'}


def lab(t):
    return t.lstrip('%').strip('"')


class Decoder:
    """turns the instruction strings of one function into tuples; operands are ('r', name) | ('k', value) | ('g', symbol)"""
    def __init__(s, prog, func):
        s.prog = prog; s.f = func; s.mc = func.mod

    def operand(s, p, ty):
        t = p.next()
        c = t[0]
        if c == '%': return ('r', t)
        if c == '@': return ('g', s.mc.sym(t), 0)
        if c == '-' or c.isdigit():
            return ('k', int(t) & ((1 << s.prog.bits_of(ty)) - 1))
        if t == 'true': return ('k', 1)
        if t == 'false' or t == 'null': return ('k', 0)
        if t in ('undef', 'poison'):
            rt = s.prog.resolve(ty)
            return ('k', undef_agg(s.prog, rt) if isinstance(rt, (StructTy, ArrTy)) else None)
        if t == 'zeroinitializer': return ('k', zero_agg(s.prog, s.prog.resolve(ty)))
        if t in ('{', '<{', '[', 'getelementptr', 'inttoptr', 'ptrtoint', 'bitcast'):
            p.i -= 1
            c = parse_const(p, ty, s.mc)
            return s.const_operand(ty, c)
        raise IRSyntax('operand %r in %r' % (t, ' '.join(p.t)))

    def const_operand(s, ty, c):
        k = c[0]
        if k == 'int':
            return ('k', c[1] & ((1 << s.prog.bits_of(ty)) - 1))
        if k == 'gref': return ('g', c[1], c[2])
        if k == 'undef':
            rt = s.prog.resolve(ty)
            return ('k', undef_agg(s.prog, rt) if isinstance(rt, (StructTy, ArrTy)) else None)
        if k == 'zero': return ('k', zero_agg(s.prog, s.prog.resolve(ty)))
        if k == 'struct':
            els = [s.const_operand(et, ec) for et, ec in c[1]]
            if any(e[0] != 'k' for e in els): return ('agg', els)
            return ('k', [e[1] for e in els])
        raise IRSyntax('const operand ' + k)

    def decode(s, text):
        prog = s.prog
        p = P(tokenize(text), prog)
        t = p.next()
        dst = None
        if t[0] == '%' and p.peek() == '=':
            dst = t; p.next(); t = p.next()
        if t in ('tail', 'musttail', 'notail'): t = p.next()
        if t == 'br':
            if p.accept('label'): return ('br', lab(p.next()))
            p.expect('i1'); c = s.operand(p, I1); p.expect(','); p.expect('label'); a = p.next(); p.expect(','); p.expect('label'); b = p.next()
            return ('condbr', c, lab(a), lab(b))
        if t == 'ret':
            ty = p.ty()
            if isinstance(ty, VoidTy): return ('ret', None)
            return ('ret', s.operand(p, ty))
        if t == 'unreachable': return ('unreachable',)
        if t == 'switch':
            ty = p.ty(); v = s.operand(p, ty); p.expect(','); p.expect('label'); default = lab(p.next()); p.expect('[')
            bits = prog.bits_of(ty); cases = []
            while not p.accept(']'):
                p.ty(); c = int(p.next()) & ((1 << bits) - 1); p.expect(','); p.expect('label'); cases.append((c, lab(p.next())))
            return ('switch', bits, v, default, cases)
        if t == 'store':
            p.skip_attrs(); ty = p.ty(); v = s.operand(p, ty); p.expect(','); p.expect('ptr'); a = s.operand(p, PTR)
            return ('store', ty, v, a)
        if t == 'load':
            p.skip_attrs(); ty = p.ty(); p.expect(','); p.expect('ptr'); a = s.operand(p, PTR)
            return ('load', dst, ty, a)
        if t == 'alloca':
            ty = p.ty(); n = prog.size_of(ty)
            if p.accept(','):
                if p.peek() != 'align':
                    raise IRSyntax('dynamic alloca')
            return ('alloca', dst, n)
        if t == 'getelementptr':
            p.skip_attrs(); bt = p.ty(); p.expect(','); p.expect('ptr'); base = s.operand(p, PTR)
            const_off = 0; var = []; cur = bt; first = True
            while p.accept(','):
                p.skip_attrs(); it = p.ty(); ix = s.operand(p, it); ib = prog.bits_of(it)
                if first:
                    sz = prog.size_of(cur); first = False
                else:
                    rc = prog.resolve(cur)
                    if isinstance(rc, StructTy):
                        if ix[0] != 'k': raise IRSyntax('struct gep with variable index')
                        const_off += prog.field_off(rc, ix[1]); cur = rc.els[ix[1]]; continue
                    cur = rc.el; sz = prog.size_of(cur)
                if ix[0] == 'k':
                    v = ix[1]
                    if v >> (ib - 1): v -= (1 << ib)
                    const_off += v * sz
                else:
                    var.append((ix, ib, sz))
            return ('gep', dst, base, const_off, var)
        if t in BIN:
            p.skip_attrs(); ty = p.ty(); a = s.operand(p, ty); p.expect(','); b = s.operand(p, ty)
            return ('bin', dst, t, prog.bits_of(ty), a, b)
        if t == 'icmp':
            p.skip_attrs(); pred = p.next(); ty = p.ty(); a = s.operand(p, ty); p.expect(','); b = s.operand(p, ty)
            return ('icmp', dst, pred, prog.bits_of(ty), a, b)
        if t in CASTS:
            p.skip_attrs(); ty = p.ty(); v = s.operand(p, ty); p.expect('to'); ty2 = p.ty()
            return ('cast', dst, t, prog.bits_of(ty), prog.bits_of(ty2), v)
        if t == 'freeze':
            ty = p.ty(); v = s.operand(p, ty)
            return ('freeze', dst, v, ty)
        if t == 'select':
            p.skip_attrs(); p.expect('i1'); c = s.operand(p, I1); p.expect(','); ty = p.ty(); a = s.operand(p, ty); p.expect(','); p.ty(); b = s.operand(p, ty)
            rt = prog.resolve(ty)
            return ('select', dst, c, (None if isinstance(rt, (StructTy, ArrTy)) else prog.bits_of(ty)), a, b)
        if t == 'extractvalue':
            ty = p.ty(); v = s.operand(p, ty); idx = []
            while p.accept(','): idx.append(int(p.next()))
            return ('extractvalue', dst, v, idx)
        if t == 'insertvalue':
            ty = p.ty(); v = s.operand(p, ty); p.expect(','); ty2 = p.ty(); e = s.operand(p, ty2); idx = []
            while p.accept(','): idx.append(int(p.next()))
            return ('insertvalue', dst, v, e, idx)
        if t == 'phi':
            p.skip_attrs(); ty = p.ty(); inc = {}
            while True:
                p.expect('['); v = s.operand(p, ty); p.expect(','); l = lab(p.next()); p.expect(']')
                inc[l] = v
                if not p.accept(','): break
            return ('phi', dst, inc)
        if t == 'call':
            p.skip_attrs(); rty = p.ty()
            # function type may be spelled out for varargs: skip "(...)" form
            callee = p.next()
            if callee == '(':
                depth = 1
                while depth:
                    x = p.next()
                    if x == '(': depth += 1
                    elif x == ')': depth -= 1
                callee = p.next()
            p.expect('(')
            args = []
            if not p.accept(')'):
                while True:
                    if p.peek() == 'metadata' or p.peek()[0] == '!':
                        while p.peek() not in (',', ')'): p.next()
                        args.append(('k', None))
                    else:
                        aty = p.ty(); p.skip_attrs(); args.append(s.operand(p, aty))
                    if p.accept(')'): break
                    p.expect(',')
            if callee[0] == '@': cal = ('g', s.mc.sym(callee), 0)
            else: cal = ('r', callee)
            return ('call', dst, cal, args, isinstance(rty, VoidTy))
        raise IRSyntax('inst: ' + text)


def zero_agg(prog, rt):
    rt = prog.resolve(rt)
    if isinstance(rt, StructTy): return [zero_agg(prog, e) for e in rt.els]
    if isinstance(rt, ArrTy): return [zero_agg(prog, rt.el) for _ in range(rt.n)]
    return 0


def undef_agg(prog, rt):
    rt = prog.resolve(rt)
    if isinstance(rt, StructTy): return [undef_agg(prog, e) for e in rt.els]
    if isinstance(rt, ArrTy): return [undef_agg(prog, rt.el) for _ in range(rt.n)]
    return None
