//! Oracles written from the Transport v1 prose (src/transport/mod.rs docs) — no table, no `crc`
//! crate, no code shared with sml-rs.

/// CRC-16/X.25: reflected polynomial 0x8408, initial register 0xffff, final xor 0xffff.
pub fn crc_reg_upd(mut reg: u16, b: u8) -> u16 {
    reg ^= b as u16;
    let mut i = 0;
    while i < 8 {
        let lsb = reg & 1;
        reg >>= 1;
        // branch-free so that symbolic data does not fork paths
        reg ^= 0x8408 & (0u16.wrapping_sub(lsb));
        i += 1;
    }
    reg
}

pub fn crc16_x25(data: &[u8]) -> u16 {
    let mut r = 0xffffu16;
    for &b in data {
        r = crc_reg_upd(r, b);
    }
    r ^ 0xffff
}

pub const START: [u8; 8] = [0x1b, 0x1b, 0x1b, 0x1b, 0x01, 0x01, 0x01, 0x01];

/// Whole-frame reference encoder: start ‖ payload with 1b1b1b1b inserted after every 4th
/// consecutive 0x1b ‖ zero padding to a multiple of 4 ‖ 1b1b1b1b 1a <pad> ‖ CRC (little endian).
pub fn spec_encode(p: &[u8]) -> Vec<u8> {
    let mut out: Vec<u8> = Vec::with_capacity(p.len() * 2 + 24);
    out.extend_from_slice(&START);
    let mut run = 0;
    for &b in p {
        out.extend_from_slice(&[b]);
        if b == 0x1b {
            run += 1;
            if run == 4 {
                out.extend_from_slice(&[0x1b; 4]);
                run = 0;
            }
        } else {
            run = 0;
        }
    }
    let pad = (4 - out.len() % 4) % 4;
    let mut i = 0;
    while i < pad {
        out.extend_from_slice(&[0]);
        i += 1;
    }
    out.extend_from_slice(&[0x1b, 0x1b, 0x1b, 0x1b, 0x1a, pad as u8]);
    let c = crc16_x25(&out);
    out.extend_from_slice(&[(c & 0xff) as u8, (c >> 8) as u8]);
    out
}

/// true iff `hay[off..off+8]` is the start sequence
pub fn start_at(hay: &[u8], off: usize) -> bool {
    if off + 8 > hay.len() {
        return false;
    }
    let mut ok = true;
    let mut i = 0;
    while i < 8 {
        // non-short-circuit so that one symbolic condition is produced per window
        ok &= hay[off + i] == START[i];
        i += 1;
    }
    ok
}
